"""commutator-form oracle H U = U Ht with gap-atom cancellation; symbolic energies."""
import sys, time
import numpy as np, z3
import sym2
from sym2 import SymC, C, hermitian, general, const, differs, check, lift, atom
from pymablock import block_diagonalize
from pymablock.series import BlockSeries, zero, one
sizes=[int(s) for s in sys.argv[1].split(",")]; maxord=int(sys.argv[2]); herm=sys.argv[3]=="herm"
N=sum(sizes); nb=len(sizes); off=np.cumsum([0]+sizes)
E=[C(f"E{i}", not herm) for i in range(N)]
H1=hermitian("h",N) if herm else general("h",N)
H0=const(np.zeros((N,N)))
for i in range(N): H0[i,i]=E[i]
blk=lambda A,i,j: A[off[i]:off[i+1],off[j]:off[j+1]]
def Heval(i,j,n):
    if n==0: return blk(H0,i,j) if i==j else zero
    if n==1: return blk(H1,i,j)
    return zero
def solve(Y,index):
    if Y is zero: return zero
    i,j=index[:2]; out=np.empty(Y.shape,dtype=object)
    for a in range(Y.shape[0]):
        for b in range(Y.shape[1]):
            out[a,b]=Y[a,b]/(E[off[i]+a]-E[off[j]+b])
    return out
H=BlockSeries(eval=Heval,shape=(nb,nb),n_infinite=1,name="H")
Ht,U,Ui=block_diagonalize(H,solve_sylvester=solve,hermitian=herm)
def get(S,i,j,n):
    v=S[i,j,n]
    if v is zero: return const(np.zeros((sizes[i],sizes[j])))
    if v is one: return const(np.eye(sizes[i]))
    return v
full=lambda S,n: np.block([[get(S,i,j,n) for j in range(nb)] for i in range(nb)])
t=time.time()
Us=[full(U,n) for n in range(maxord+1)]; Hts=[full(Ht,n) for n in range(maxord+1)]
print("exec %.2fs"%(time.time()-t))
def mulgap(x,a,b):
    """x * (E_a - E_b) with cancellation against denominator atoms (real energies only)"""
    x=lift(x)
    if a==b: return lift(0)
    k,sgn=atom((E[a]-E[b]).re)
    if x.den.get(k,0)>0:
        den=dict(x.den); den[k]-=1
        if den[k]==0: del den[k]
        return SymC(x.re*sgn, x.im*sgn, den)
    return x*(E[a]-E[b])
Z=const(np.zeros((N,N)))
for n in range(1,maxord+1):
    # H U - U Ht at order n: [H0,U_n] + H1 U_{n-1} - sum_{c>=1} U_{n-c} Ht_c
    comm=np.empty((N,N),dtype=object)
    for a in range(N):
        for b in range(N):
            comm[a,b]=mulgap(Us[n][a,b],a,b)
    acc=comm+H1@Us[n-1]
    for c in range(1,n+1):
        acc=acc-Us[n-c]@Hts[c]
    t=time.time()
    res=[]
    for a in range(N):
        for b in range(N):
            res.append(check(z3.Or(acc[a,b].nonzero_clauses()),timeout=300000)[0])
    print("order",n,"HU-UHt entries:",{r:res.count(r) for r in set(res)},"%.2fs"%(time.time()-t))
