import numpy as np, z3, time
import sym2
from sym2 import SymC, general, const, differs, check
from pymablock.linalg import ComplementProjector
from scipy.sparse.linalg import LinearOperator, aslinearoperator
_orig = ComplementProjector.__init__
def _init(self, vecs, left_vecs=None):
    LinearOperator.__init__(self, None, (vecs.shape[0],)*2)
    _orig(self, vecs, left_vecs)
ComplementProjector.__init__ = _init
n,k=3,1
R=general("r",n,k); Lv=general("l",n,k); v=general("v",n,2); A=general("a",n,n)
conj=lambda M: np.conjugate(M)
P=ComplementProjector(R,Lv)
D=const(np.eye(n))-R@conj(Lv).T
t=time.time()
print("_apply:", check(differs(P._apply(v), D@v))[0])
print("_apply_left (adjoint action D^H v):", check(differs(P._apply_left(v), conj(D).T@v))[0])
print("   vs transpose action D^T v:", check(differs(P._apply_left(v), D.T@v))[0])
print("_adjoint._apply:", check(differs(P._adjoint()._apply(v), conj(D).T@v))[0])
print("conjugate._apply:", check(differs(P.conjugate()._apply(v), conj(D)@v))[0])
print("_transpose._apply:", check(differs(P._transpose()._apply(v), D.T@v))[0])
# public operator API on object arrays
try:
    print("P @ v:", check(differs(P @ v, D@v))[0])
    print("P.H @ v:", check(differs(P.H @ v, conj(D).T@v))[0])
    print("P.T @ v:", check(differs(P.T @ v, D.T@v))[0])
    print("v.T @ P (rmatmat path):", check(differs(v.T @ P, v.T@D))[0])
    comp = P @ aslinearoperator(A) @ P
    print("(PAP) @ v:", check(differs(comp @ v, D@A@D@v))[0])
    print("v^T @ (PAP):", check(differs(v.T @ comp, v.T@D@A@D))[0])
    print("(PAP).H @ v:", check(differs(comp.H @ v, conj(D@A@D).T@v))[0])
except Exception as e:
    import traceback; traceback.print_exc()
# idempotent under L^dagger R = 1
s=z3.Solver(); s.set("timeout",60000)
ov=(conj(Lv).T@R)[0,0]
s.add(ov.re==1, ov.im==0)
s.add(differs(P._apply(P._apply(v)), P._apply(v)))
print("idempotent given L†R=1:", s.check(), "%.1fs"%(time.time()-t))
