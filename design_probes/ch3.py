import numpy as np
from pymablock import block_diagonalize
from pymablock.series import zero

H1 = np.array([[0.5, 1+1j, 2-1j],[1-1j, -0.25, 0.5j],[2+1j, -0.5j, 1.0]])

def _body(e0, e1, e2, b1, b2):
    E = [e0, e1, e2]
    idx = [0, b1, b2]
    if max(idx) == 0:
        return True
    illposed = any(E[i] == E[j] and idx[i] != idx[j] for i in range(3) for j in range(3))
    try:
        Ht, U, Ud = block_diagonalize([np.diag(np.array(E, dtype=float)), H1], subspace_indices=idx)
        vals = [S[i, j, n] for S in (Ht, U, Ud) for i in range(2) for j in range(2) for n in range(3)]
    except ValueError:
        return illposed
    if illposed:
        return False
    for v in vals:
        if v is zero or not hasattr(v, "shape"):
            continue
        v = v.toarray() if hasattr(v, "toarray") else np.asarray(v)
        if not np.all(np.isfinite(v)):
            return False
    return True

def shared_energy_rejected(e0: int, e1: int, e2: int, b1: int, b2: int) -> bool:
    """
    pre: 0 <= e0 <= 2 and 0 <= e1 <= 2 and 0 <= e2 <= 2 and 0 <= b1 <= 1 and 0 <= b2 <= 1
    post: _
    """
    from crosshair import realize, NoTracing
    e0, e1, e2, b1, b2 = (realize(x) for x in (e0, e1, e2, b1, b2))
    with NoTracing():
        return _body(int(e0), int(e1), int(e2), int(b1), int(b2))
