import time, sympy, z3
from sympy.physics.quantum import Dagger, pauli
from sympy.physics.quantum.boson import BosonOp
from sympy.physics.quantum.fermion import FermionOp
from pymablock import block_diagonalize
from pymablock.series import zero, one
from pymablock.number_ordered_form import NumberOrderedForm, NumberOperator, LadderOp
from fock import Fock
import sym2
a=BosonOp('a'); c=FermionOp('c'); d=FermionOp('d'); e=FermionOp('e'); sm=pauli.SigmaMinus('s'); l=LadderOp('l')
# --- C08 style: product checks through the same evaluator
F=Fock([a,l,sm,c,d,e])
def prodcheck(x,y,ops):
    P=NumberOrderedForm.from_expr(x,ops)*NumberOrderedForm.from_expr(y,ops)
    lhs=F.act(P.as_expr(),F.init()); rhs=F.act(x*y,F.init())
    return F.differ(lhs,rhs)[0], P
ops=[a,l,sm,c,d,e]
for x,y in [(Dagger(c),d*e),(c,d*e),(e,Dagger(c)*d),(NumberOperator(a)*a*a,Dagger(a)),(a*a,Dagger(a)*Dagger(a)),
            (sm,pauli.SigmaPlus('s')),(pauli.SigmaX('s'),pauli.SigmaY('s')),(l,Dagger(l)*NumberOperator(l)),(Dagger(a)*sm, a*pauli.SigmaPlus('s')*Dagger(c))]:
    t=time.time(); r,P=prodcheck(x,y,ops); print(x,"*",y,"->",r,"%.2fs"%(time.time()-t))
# --- C07 style: 2-fermion hopping + JC
def verify(name,H0,H1,modes,maxn):
    g=sympy.Symbol('g',real=True)
    Ht,U,Ud=block_diagonalize({sympy.S.One:H0,g:H1},symbols=[g])
    F=Fock(modes)
    Hs={0:H0,1:H1}
    def A(x,st):
        if x is zero or x==0: return {}
        if x is one: return dict(st)
        return F.act(x,st)
    for n in range(maxn+1):
        t=time.time(); lhs={}; un={}
        for i in range(n+1):
            for k in range(n+1-i):
                j=n-i-k
                if j==0:
                    for s,cf in A(Ud[0,0,i],A(U[0,0,k],F.init())).items(): un[s]=un[s]+cf if s in un else cf
                if j in Hs:
                    for s,cf in A(Ud[0,0,i],A(Hs[j],A(U[0,0,k],F.init()))).items(): lhs[s]=lhs[s]+cf if s in lhs else cf
        rhs=A(Ht[0,0,n],F.init())
        r1=F.differ(lhs,rhs)[0]; r2=F.differ(un,F.init() if n==0 else {})[0]
        print(name,"order",n,"U†HU!=Ht:",r1,"U†U!=1:",r2,"%.2fs"%(time.time()-t))
ec,ed,wa,wq=sympy.symbols('e_c e_d omega_a omega_q',real=True)
verify("2 fermions hop", ec*Dagger(c)*c+ed*Dagger(d)*d, Dagger(c)*d+Dagger(d)*c, [c,d], 3)
verify("JC+counter-rotating", wa*Dagger(a)*a+wq*pauli.SigmaZ('s')/2, (a+Dagger(a))*(sm+pauli.SigmaPlus('s')), [a,sm], 3)
ee=sympy.Symbol('e_e',real=True)
verify("3 fermions pairing", ec*Dagger(c)*c+ed*Dagger(d)*d+ee*Dagger(e)*e, (Dagger(c)*d+Dagger(d)*c)+(Dagger(d)*e+Dagger(e)*d)+(c*d+Dagger(d)*Dagger(c))+(d*e+Dagger(e)*Dagger(d)), [c,d,e], 2)
