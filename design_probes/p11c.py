"""Probe: verify second-quantized block_diagonalize output as operator identities on a symbolic Fock state."""
import time, itertools
import sympy, z3
from sympy.physics.quantum import Dagger
from sympy.physics.quantum.boson import BosonOp
from pymablock import block_diagonalize
from pymablock.series import zero, one
from pymablock.number_ordered_form import NumberOrderedForm, NumberOperator

a = BosonOp("a")
w, g, al = sympy.symbols("omega g alpha", real=True)
H0 = w * Dagger(a) * a + al * Dagger(a) * a * Dagger(a) * a
H1 = a + Dagger(a) + (Dagger(a) * a * a + Dagger(a) * Dagger(a) * a) / 3
Ht, U, Ud = block_diagonalize({sympy.S.One: H0, g: H1}, symbols=[g])
import sys; MAX = int(sys.argv[1])

n = z3.Real("n")  # occupation; constrained to integer >=0 via Int cast below
ni = z3.Int("n_int")
zsym = {w: z3.Real("omega"), al: z3.Real("alpha")}

import sym2
from sym2 import SymC
def Q(num): return SymC(num)
DENS = []

def tr(e, occ, placeholder):
    if e == placeholder: return Q(occ)
    if e in zsym: return Q(zsym[e])
    if e.is_Rational: return Q(z3.RealVal(str(e)))
    if e.is_Add:
        r = tr(e.args[0], occ, placeholder)
        for x in e.args[1:]: r = r + tr(x, occ, placeholder)
        return r
    if e.is_Mul:
        r = Q(z3.RealVal(1))
        for x in e.args: r = r * tr(x, occ, placeholder)
        return r
    if e.is_Pow and e.args[1].is_Integer:
        b = tr(e.args[0], occ, placeholder); k = int(e.args[1])
        r = Q(z3.RealVal(1))
        for _ in range(abs(k)): r = r * b
        if k < 0:
            return r.inverse()
        return r
    raise NotImplementedError(e)

def act(nof, state):
    """state: dict shift->Q (vector sum_s c_s(n) z^(n+s)); returns new state. nof may be zero/one/NOF/sympy number."""
    if nof is zero or nof == 0: return {}
    if nof is one: return dict(state)
    if not isinstance(nof, NumberOrderedForm): nof = NumberOrderedForm.from_expr(nof, [a])
    (ph,) = nof._number_operator_placeholders
    out = {}
    for s, c in state.items():
        for (p,), coeff in nof.args[1]:
            p = int(p)
            occ = n + s
            cc = c
            if p > 0:   # annihilate p times
                for k in range(p): cc = cc * Q(occ - k)
                occ = occ - p
                cc = cc * tr(coeff, occ, ph)
                ns = s - p
            else:       # f(N) then create |p| times:  (a†)^|p| f(N)
                cc = cc * tr(coeff, occ, ph)
                ns = s - p
            out[ns] = out[ns] + cc if ns in out else cc
    return out

def add(s1, s2, sign=1):
    out = dict(s1)
    for k, v in s2.items():
        v = v if sign == 1 else -v
        out[k] = out[k] + v if k in out else v
    return out

def is_zero_query(state):
    s = z3.Solver(); s.set("timeout", 120000)
    s.add(n >= 0)
    for d in sym2.ATOMS.values(): s.add(d != 0)
    s.add(z3.Or([c.re != 0 for c in state.values()] or [z3.BoolVal(False)]))
    r = s.check()
    return str(r), (s.model() if r == z3.sat else None)

Hs = {0: NumberOrderedForm.from_expr(H0, [a]), 1: NumberOrderedForm.from_expr(H1, [a])}
init = {0: Q(z3.RealVal(1))}
for order in range(MAX + 1):
    t = time.time()
    lhs = {}
    unit = {}
    for ia in range(order + 1):
        for ic in range(order + 1 - ia):
            ib = order - ia - ic
            if ib == ia + ic == 0: pass
            if ib == 0:
                unit = add(unit, act(Ud[0, 0, ia], act(U[0, 0, ic], init)))
            if ib in Hs:
                lhs = add(lhs, act(Ud[0, 0, ia], act(Hs[ib], act(U[0, 0, ic], init))))
    rhs = act(Ht[0, 0, order], init)
    r1 = is_zero_query(add(lhs, rhs, -1))
    if order == 0: unit = add(unit, init, -1)
    r2 = is_zero_query(unit)
    print(order, "U†HU-Ht != 0:", r1[0], " U†U-1 != 0:", r2[0], "shifts", sorted(lhs), "%.2fs" % (time.time() - t))
    if r1[1] is not None: print(r1[1])
