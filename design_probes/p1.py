import sys, time, itertools
import numpy as np, z3
from symc import SymC, sym_hermitian
from pymablock import block_diagonalize
from pymablock.series import BlockSeries, zero, one

# dims of blocks
sizes = [int(s) for s in sys.argv[1].split(",")]
maxord = int(sys.argv[2])
fd = sys.argv[3] if len(sys.argv) > 3 else ""
N = sum(sizes)
off = np.cumsum([0] + sizes)
E = np.array([float(x) for x in sys.argv[4].split(",")])
H1 = sym_hermitian("h", N)


def blk(A, i, j):
    return A[off[i]:off[i + 1], off[j]:off[j + 1]]


def Heval(i, j, n):
    if n == 0:
        return np.diag(E[off[i]:off[i + 1]]) if i == j else zero
    if n == 1:
        return blk(H1, i, j)
    return zero


H = BlockSeries(eval=Heval, shape=(len(sizes),) * 2, n_infinite=1, name="H")
kw = {}
if fd == "full":
    kw["fully_diagonalize"] = tuple(range(len(sizes)))
t = time.time()
Ht, U, Ud = block_diagonalize(H, **kw)
nb = len(sizes)


def get(S, i, j, n):
    v = S[i, j, n]
    if v is zero:
        return np.zeros((sizes[i], sizes[j]), dtype=object) + SymC(z3.RealVal(0))
    if v is one:
        return np.eye(sizes[i], dtype=object) * SymC(z3.RealVal(1)) + SymC(z3.RealVal(0))
    return v


def full(S, n):
    return np.block([[get(S, i, j, n) for j in range(nb)] for i in range(nb)])


Hs = [np.diag(E).astype(object) * SymC(z3.RealVal(1)) + SymC(z3.RealVal(0)), H1]
zeroM = np.zeros((N, N), dtype=object) + SymC(z3.RealVal(0))
Us = [full(U, n) for n in range(maxord + 1)]
Uds = [full(Ud, n) for n in range(maxord + 1)]
Hts = [full(Ht, n) for n in range(maxord + 1)]
print("exec time", time.time() - t)
for n in range(maxord + 1):
    acc = zeroM
    for a in range(n + 1):
        for b in range(n + 1 - a):
            c = n - a - b
            if b >= len(Hs):
                continue
            acc = acc + Uds[a] @ Hs[b] @ Us[c]
    diff = acc - Hts[n]
    s = z3.Solver()
    s.set("timeout", 120000)
    s.add(z3.Or([z3.Or(d.re != 0, d.im != 0) for d in diff.flat]))
    t = time.time()
    r = s.check()
    print("order", n, "U†HU != Ht ?", r, "%.2fs" % (time.time() - t))
    if r == z3.sat:
        print(s.model())
