"""Probe: z3-backed complex scalar that can live in numpy object arrays."""
from fractions import Fraction
import numbers
import z3
import numpy as np


def _q(x):
    """python number -> (re, im) pair of z3 reals (exact)."""
    if isinstance(x, SymC):
        return x.re, x.im
    if isinstance(x, (bool, np.bool_)):
        x = int(x)
    if isinstance(x, (int, np.integer)):
        return z3.RealVal(int(x)), z3.RealVal(0)
    if isinstance(x, Fraction):
        return z3.RealVal(str(x)), z3.RealVal(0)
    if isinstance(x, (float, np.floating)):
        f = Fraction(float(x))
        return z3.RealVal(str(f)), z3.RealVal(0)
    if isinstance(x, (complex, np.complexfloating)):
        return (z3.RealVal(str(Fraction(x.real))), z3.RealVal(str(Fraction(x.imag))))
    return None


class SymC:
    __slots__ = ("re", "im")

    def __init__(self, re, im=None):
        self.re = re
        self.im = z3.RealVal(0) if im is None else im

    @staticmethod
    def var(name, complex_=True):
        return SymC(z3.Real(name + "_r"), z3.Real(name + "_i") if complex_ else z3.RealVal(0))

    def _co(self, other):
        return _q(other)

    def __add__(self, o):
        q = _q(o)
        if q is None:
            return NotImplemented
        return SymC(self.re + q[0], self.im + q[1])

    __radd__ = __add__

    def __neg__(self):
        return SymC(-self.re, -self.im)

    def __sub__(self, o):
        q = _q(o)
        if q is None:
            return NotImplemented
        return SymC(self.re - q[0], self.im - q[1])

    def __rsub__(self, o):
        q = _q(o)
        if q is None:
            return NotImplemented
        return SymC(q[0] - self.re, q[1] - self.im)

    def __mul__(self, o):
        q = _q(o)
        if q is None:
            return NotImplemented
        a, b = self.re, self.im
        c, d = q
        return SymC(a * c - b * d, a * d + b * c)

    __rmul__ = __mul__

    def __truediv__(self, o):
        q = _q(o)
        if q is None:
            return NotImplemented
        c, d = q
        # only real division needed in probes
        den = c * c + d * d
        a, b = self.re, self.im
        return SymC((a * c + b * d) / den, (b * c - a * d) / den)

    def conjugate(self):
        return SymC(self.re, -self.im)

    def __repr__(self):
        return f"SymC({z3.simplify(self.re)}, {z3.simplify(self.im)})"


def sym_hermitian(name, n):
    A = np.empty((n, n), dtype=object)
    for i in range(n):
        for j in range(n):
            if i == j:
                A[i, j] = SymC(z3.Real(f"{name}_{i}{j}_r"))
            elif i < j:
                A[i, j] = SymC(z3.Real(f"{name}_{i}{j}_r"), z3.Real(f"{name}_{i}{j}_i"))
            else:
                A[i, j] = SymC(z3.Real(f"{name}_{j}{i}_r"), -z3.Real(f"{name}_{j}{i}_i"))
    return A


def sym_general(name, n, m=None):
    m = n if m is None else m
    A = np.empty((n, m), dtype=object)
    for i in range(n):
        for j in range(m):
            A[i, j] = SymC(z3.Real(f"{name}_{i}{j}_r"), z3.Real(f"{name}_{i}{j}_i"))
    return A
