"""Probe v2: z3-backed complex rational-function scalar (numerator polys, tracked denominators)."""
from fractions import Fraction
import z3
import numpy as np

R0 = z3.RealVal(0)
R1 = z3.RealVal(1)
ATOMS = {}  # key -> z3 term (assumed non-zero)


def atom(term):
    """canonical atom up to sign: returns (key, sign)"""
    t1 = z3.simplify(term, som=True)
    t2 = z3.simplify(-term, som=True)
    if t1.sexpr() <= t2.sexpr():
        t, sgn = t1, 1
    else:
        t, sgn = t2, -1
    k = t.get_id()
    ATOMS.setdefault(k, t)
    return k, sgn


def _num(x):
    if isinstance(x, (bool, np.bool_)):
        x = int(x)
    if isinstance(x, (int, np.integer)):
        return z3.RealVal(int(x)), R0
    if isinstance(x, Fraction):
        return z3.RealVal(str(x)), R0
    if isinstance(x, (float, np.floating)):
        return z3.RealVal(str(Fraction(float(x)))), R0
    if isinstance(x, (complex, np.complexfloating)):
        return z3.RealVal(str(Fraction(float(x.real)))), z3.RealVal(str(Fraction(float(x.imag))))
    return None


def lift(x):
    if isinstance(x, SymC):
        return x
    q = _num(x)
    if q is None:
        return None
    return SymC(q[0], q[1])


def _is0(t):
    return z3.is_rational_value(t) and t.numerator_as_long() == 0


def _mul(a, b):
    if _is0(a) or _is0(b):
        return R0
    return a * b


class SymC:
    __slots__ = ("re", "im", "den")

    def __init__(self, re, im=R0, den=None):
        self.re, self.im, self.den = re, im, den or {}

    def _scaled(self, target):
        re, im = self.re, self.im
        for k, v in target.items():
            for _ in range(v - self.den.get(k, 0)):
                re, im = _mul(re, ATOMS[k]), _mul(im, ATOMS[k])
        return re, im

    def __add__(self, o, sign=1):
        o = lift(o)
        if o is None:
            return NotImplemented
        target = dict(self.den)
        for k, v in o.den.items():
            target[k] = max(target.get(k, 0), v)
        a, b = self._scaled(target)
        c, d = o._scaled(target)
        if sign == 1:
            return SymC(a + c, b + d, target)
        return SymC(a - c, b - d, target)

    __radd__ = __add__

    def __sub__(self, o):
        return self.__add__(o, -1)

    def __rsub__(self, o):
        return (-self).__add__(o)

    def __neg__(self):
        return SymC(-self.re, -self.im, self.den)

    def __mul__(self, o):
        o = lift(o)
        if o is None:
            return NotImplemented
        a, b, c, d = self.re, self.im, o.re, o.im
        den = dict(self.den)
        for k, v in o.den.items():
            den[k] = den.get(k, 0) + v
        return SymC(_mul(a, c) - _mul(b, d), _mul(a, d) + _mul(b, c), den)

    __rmul__ = __mul__

    def inverse(self):
        # 1/((c+id)/D) = D (c - id)/(c^2+d^2)
        c, d = self.re, self.im
        if _is0(d):
            k, sgn = atom(c)
            num = SymC(z3.RealVal(sgn), R0, {k: 1})
        else:
            k, sgn = atom(c * c + d * d)
            num = SymC(c * sgn, -d * sgn, {k: 1})
        for kk, v in self.den.items():
            for _ in range(v):
                num = num * SymC(ATOMS[kk])
        return num

    def __truediv__(self, o):
        o = lift(o)
        if o is None:
            return NotImplemented
        return self * o.inverse()

    def __rtruediv__(self, o):
        return lift(o) * self.inverse()

    def conjugate(self):
        return SymC(self.re, -self.im, self.den)

    def nonzero_clauses(self):
        return [self.re != 0, self.im != 0]

    def __repr__(self):
        return f"SymC({z3.simplify(self.re)}, {z3.simplify(self.im)} / {self.den})"


def C(name, complex_=True):
    return SymC(z3.Real(name + "_r"), z3.Real(name + "_i") if complex_ else R0)


def hermitian(name, n):
    A = np.empty((n, n), dtype=object)
    for i in range(n):
        A[i, i] = C(f"{name}{i}{i}", False)
        for j in range(i + 1, n):
            A[i, j] = C(f"{name}{i}{j}")
            A[j, i] = A[i, j].conjugate()
    return A


def general(name, n, m=None, complex_=True):
    m = n if m is None else m
    A = np.empty((n, m), dtype=object)
    for i in range(n):
        for j in range(m):
            A[i, j] = C(f"{name}{i}{j}", complex_)
    return A


def const(A):
    A = np.asarray(A)
    out = np.empty(A.shape, dtype=object)
    for idx in np.ndindex(A.shape):
        out[idx] = lift(A[idx].item() if hasattr(A[idx], "item") else A[idx])
    return out


def differs(A, B):
    """z3 clause: some entry of A-B non-zero."""
    D = A - B
    cl = []
    for d in np.asarray(D, dtype=object).flat:
        cl += lift(d).nonzero_clauses()
    return z3.Or(cl)


def check(clause, timeout=120000):
    s = z3.Solver()
    s.set("timeout", timeout)
    for t in ATOMS.values():
        s.add(t != 0)
    s.add(clause)
    r = s.check()
    return str(r), (s.model() if r == z3.sat else None)
