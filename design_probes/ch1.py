import numpy as np
from pymablock.series import BlockSeries, zero

DENSE = np.array([[[100*a+10*b+c for c in range(6)] for b in range(2)] for a in range(2)])

def _mk(log):
    def ev(*index):
        log.append(index)
        return 100*index[0] + 10*index[1] + index[2]
    return BlockSeries(eval=ev, shape=(2, 2), n_infinite=1)

def idx_int(i: int, j: int, n: int) -> bool:
    """
    pre: -2 <= i < 2 and -2 <= j < 2 and -3 <= n <= 3
    post: _
    """
    log = []
    s = _mk(log)
    try:
        r = s[i, j, n]
    except IndexError:
        return n < 0
    if n < 0:
        return False
    ok = bool(r == DENSE[i, j, n])
    s[i, j, n]
    return ok and len(log) == 1

def idx_slice(start: int, stop: int, step: int) -> bool:
    """
    pre: -2 <= start <= 3 and 0 <= stop <= 4 and 1 <= step <= 3
    post: _
    """
    log = []
    s = _mk(log)
    try:
        r = s[0, 1, start:stop:step]
    except IndexError:
        return start < 0
    if start < 0:
        return False
    exp = DENSE[0, 1, start:stop:step]
    return list(r) == list(exp) and len(log) == len(set(log))
