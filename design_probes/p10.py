"""Implicit mode on symbolic H' with exact LU stub (probe)."""
import sys, time
from fractions import Fraction
import numpy as np, z3
import sym2
from sym2 import SymC, C, hermitian, general, const, differs, check, lift
import pymablock.linalg as L
from pymablock.linalg import ComplementProjector
from scipy.sparse.linalg import LinearOperator
# --- simulate the SciPy-compat fix
_orig = ComplementProjector.__init__
def _init(self, vecs, left_vecs=None):
    LinearOperator.__init__(self, np.result_type(vecs.dtype, (left_vecs if left_vecs is not None else vecs).dtype), (vecs.shape[0],)*2)
    _orig(self, vecs, left_vecs)
ComplementProjector.__init__ = _init
# --- exact stub for factorized
def factorized_stub(A):
    A = np.asarray(A.todense())
    n = A.shape[0]
    M = [[Fraction(float(A[i,j].real)) for j in range(n)] for i in range(n)]
    assert not np.iscomplexobj(A) or np.allclose(A.imag,0)
    # exact inverse by Gauss-Jordan
    inv = [[Fraction(int(i==j)) for j in range(n)] for i in range(n)]
    for c in range(n):
        p = next(r for r in range(c,n) if M[r][c]!=0)
        M[c],M[p]=M[p],M[c]; inv[c],inv[p]=inv[p],inv[c]
        d=M[c][c]; M[c]=[x/d for x in M[c]]; inv[c]=[x/d for x in inv[c]]
        for r in range(n):
            if r!=c and M[r][c]!=0:
                f=M[r][c]; M[r]=[x-f*y for x,y in zip(M[r],M[c])]; inv[r]=[x-f*y for x,y in zip(inv[r],inv[c])]
    INV = np.array(inv,dtype=object)
    def solve(v):
        return INV @ v
    return solve
L.factorized = factorized_stub
from pymablock import block_diagonalize
from pymablock.series import BlockSeries, zero, one
import pymablock.block_diagonalization as BD
# allclose model for symbolic arrays
_orig_conv = BD._convert_if_zero
def conv(value, atol=1e-12):
    if isinstance(value, np.ndarray) and value.dtype == object:
        allzero = all(z3.is_rational_value(z3.simplify(x.re)) and z3.simplify(x.re).numerator_as_long()==0 and
                      z3.is_rational_value(z3.simplify(x.im)) and z3.simplify(x.im).numerator_as_long()==0 for x in value.flat)
        return zero if allzero else value
    return _orig_conv(value, atol)
BD._convert_if_zero = conv   # probe only: the design will use an ndarray subclass instead
N=4
E=np.array([0.,1.,2.,4.])
H0=np.diag(E)
H1=hermitian("h",N)
vecsA=np.eye(N)[:, :1]
vecsB=np.eye(N)[:, 1:]
t=time.time()
try:
    Ht,U,Ud=block_diagonalize([H0,H1],subspace_eigenvectors=[vecsA])
    x=Ht[0,0,2]; print("implicit Ht00_2:", x)
    Ht2,U2,Ud2=block_diagonalize([H0,H1],subspace_eigenvectors=[vecsA,vecsB])
    for n in range(4):
        a=Ht[0,0,n]; b=Ht2[0,0,n]
        if a is zero or b is zero: print(n, a is zero, b is zero); continue
        print(n, "Ht00 implicit != explicit:", check(differs(np.asarray(a,dtype=object),np.asarray(b,dtype=object)))[0])
        u=U[0,1,n]; u2=U2[0,1,n]
        if u is zero: print("  U01 zero", u2 is zero); continue
        ue = u @ const(np.eye(N)) if not isinstance(u,np.ndarray) else u
        # explicit U01 is in B eigenbasis (1x3); implicit is 1xN in original basis: u2 @ vecsB^T
        print("  U01:", check(differs(np.asarray(ue,dtype=object), u2 @ vecsB.T))[0])
    print("%.1fs"%(time.time()-t))
except Exception:
    import traceback; traceback.print_exc()
