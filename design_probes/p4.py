import numpy as np
from pymablock import block_diagonalize
from pymablock.series import zero, one
rng=np.random.default_rng(0)
def run(E, sizes, herm_input=False, order=3):
    N=len(E); H0=np.diag(np.array(E,dtype=complex))
    H1=rng.normal(size=(N,N))+1j*rng.normal(size=(N,N))
    if herm_input: H1=H1+H1.conj().T
    idx=[b for b,s in enumerate(sizes) for _ in range(s)]
    Ht,U,Ui=block_diagonalize([H0,H1],subspace_indices=idx,hermitian=False)
    nb=len(sizes)
    def g(S,i,j,n):
        v=S[i,j,n]
        if v is zero: return np.zeros((sizes[i],sizes[j]),complex)
        if v is one: return np.eye(sizes[i],dtype=complex)
        return np.asarray(v.todense() if hasattr(v,'todense') else v)
    def full(S,n): return np.block([[g(S,i,j,n) for j in range(nb)] for i in range(nb)])
    Hs=[H0,H1]
    for n in range(order+1):
        acc=np.zeros((N,N),complex); inv=np.zeros((N,N),complex)
        for a in range(n+1):
            inv+=full(Ui,a)@full(U,n-a)
            for b in range(min(n-a,1)+1):
                acc+=full(Ui,a)@Hs[b]@full(U,n-a-b)
        print(' order',n,'|UinvHU-Ht|=%.2e'%abs(acc-full(Ht,n)).max(),'|UinvU-1|=%.2e'%abs(inv-(np.eye(N) if n==0 else 0)).max())
print('degenerate blocks'); run([0,0,2,2],[2,2])
print('nondegenerate blocks'); run([0,1,3,5],[2,2])
print('nondegenerate blocks, hermitian input'); run([0,1,3,5],[2,2],True)
print('1|1 blocks'); run([0,1],[1,1])
