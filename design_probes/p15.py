import numpy as np
from pymablock.linalg import ComplementProjector
from scipy.sparse.linalg import LinearOperator
_orig = ComplementProjector.__init__
def _init(self, vecs, left_vecs=None):
    LinearOperator.__init__(self, None, (vecs.shape[0],)*2)
    _orig(self, vecs, left_vecs)
ComplementProjector.__init__ = _init
from pymablock import block_diagonalize
from pymablock.series import zero
rng=np.random.default_rng(1)
N=4; E=np.array([0.,1.,2.,4.])
Q2=np.array([[1+1j,1+1j],[1+1j,-(1+1j)]])/2
Q=np.eye(N,dtype=complex); Q[:2,:2]=Q2
H0=Q@np.diag(E)@Q.conj().T
H1=rng.normal(size=(N,N))+1j*rng.normal(size=(N,N)); H1=H1+H1.conj().T
for adim in (1,2):
    vA=Q[:,:adim]; vB=Q[:,adim:]
    Ht,U,Ud=block_diagonalize([H0,H1],subspace_eigenvectors=[vA])
    Ht2,U2,Ud2=block_diagonalize([H0,H1],subspace_eigenvectors=[vA,vB])
    for n in range(1,4):
        a=Ht[0,0,n]; b=Ht2[0,0,n]
        u=U[0,1,n]; u=u@np.eye(N) if not isinstance(u,np.ndarray) else u
        print(adim,n,"Ht00 diff %.2e"%abs(a-b).max(),"U01 diff %.2e"%abs(u-U2[0,1,n]@vB.conj().T).max())
