import numpy as np, z3
import sym2
from sym2 import SymC, hermitian, const, differs, check, lift
from sympy.physics.quantum import Dagger

def _ident_zero(x):
    x = lift(x)
    r, i = z3.simplify(x.re), z3.simplify(x.im)
    def z(t): return z3.is_rational_value(t) and t.numerator_as_long() == 0
    if z(r) and z(i): return True
    s = z3.Solver(); s.add(z3.Or(x.re != 0, x.im != 0))
    return s.check() == z3.unsat

class SymArray(np.ndarray):
    __array_priority__ = 100
    def __new__(cls, a):
        return np.asarray(a, dtype=object).view(cls)
    def __array_function__(self, func, types, args, kwargs):
        if func is np.allclose:
            a, b = args[0], args[1]
            if np.isscalar(b) and b == 0:
                return all(_ident_zero(x) for x in np.asarray(a).flat)
            raise NotImplementedError("allclose model only vs 0")
        return super().__array_function__(func, types, args, kwargs)

H1 = SymArray(hermitian("h", 3))
V = np.eye(3)[:, :2]
B = Dagger(V) @ H1 @ V
print(type(B), B.shape, np.allclose(B, 0, atol=1e-12))
Z = SymArray(const(np.zeros((2, 2))))
print(np.allclose(Z, 0, atol=1e-12), type(H1 * 2.0), type(2.0 * H1), type(H1 @ H1), type(H1[:2, :2]), type(-H1), type(H1 / 2), type(H1.conjugate().T))
import pymablock.block_diagonalization as BD
print(BD._convert_if_zero(B) is B, BD._convert_if_zero(Z))
from pymablock import block_diagonalize
Ht, U, Ud = block_diagonalize([np.diag([0., 1., 2.]), H1], subspace_eigenvectors=[np.eye(3)[:, :1], np.eye(3)[:, 1:]])
print(type(Ht[0, 0, 2]), Ht[0,0,2])
