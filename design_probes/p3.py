"""Probe: sympy carrier with symbolic energies; denominators tracked as gap exponents."""
import sys, time
import sympy, z3
from sympy import I, Symbol, conjugate
from pymablock import block_diagonalize
from pymablock.series import zero, one

sizes = [int(s) for s in sys.argv[1].split(",")]
maxord = int(sys.argv[2])
fd = sys.argv[3]
N = sum(sizes)
idx = [b for b, s in enumerate(sizes) for _ in range(s)]
E = [Symbol(f"E{i}", real=True) for i in range(N)]
H0 = sympy.diag(*E)
H1 = sympy.zeros(N, N)
for i in range(N):
    for j in range(i, N):
        if i == j:
            H1[i, i] = Symbol(f"h{i}{i}r", real=True)
        else:
            H1[i, j] = Symbol(f"h{i}{j}r", real=True) + I * Symbol(f"h{i}{j}i", real=True)
            H1[j, i] = Symbol(f"h{i}{j}r", real=True) - I * Symbol(f"h{i}{j}i", real=True)
kw = {}
if fd == "full":
    kw["fully_diagonalize"] = tuple(range(len(sizes)))
t = time.time()
Ht, U, Ud = block_diagonalize([H0, H1], subspace_indices=idx, **kw)
nb = len(sizes)


def get(S, i, j, n):
    v = S[i, j, n]
    if v is zero:
        return sympy.zeros(sizes[i], sizes[j])
    if v is one:
        return sympy.eye(sizes[i])
    return v


def full(S, n):
    return sympy.Matrix(sympy.BlockMatrix([[get(S, i, j, n) for j in range(nb)] for i in range(nb)]))


Us = [full(U, n) for n in range(maxord + 1)]
Uds = [full(Ud, n) for n in range(maxord + 1)]
Hts = [full(Ht, n) for n in range(maxord + 1)]
print("exec", time.time() - t)

zE = [z3.Real(f"E{i}") for i in range(N)]
gapkey = {}
for i in range(N):
    for j in range(N):
        if i != j:
            gapkey[E[i] - E[j]] = (min(i, j), max(i, j), 1 if i < j else -1)
zvars = {}
R0, R1 = z3.RealVal(0), z3.RealVal(1)


def gap(k):
    return zE[k[0]] - zE[k[1]]


def scale(x, den, target):
    re, im = x
    for k, v in target.items():
        m = v - den.get(k, 0)
        for _ in range(m):
            g = gap(k)
            re, im = re * g, im * g
    return re, im


def tr(e):
    """sympy expr -> ((re, im), den) ; value = (re + i im)/prod gap^den."""
    if e.is_Symbol:
        if e not in zvars:
            zvars[e] = z3.Real(e.name)
        return (zvars[e], R0), {}
    if e.is_Rational:
        return (z3.RealVal(str(e)), R0), {}
    if e == I:
        return (R0, R1), {}
    if e.is_Add:
        parts = [tr(a) for a in e.args]
        target = {}
        for _, d in parts:
            for k, v in d.items():
                target[k] = max(target.get(k, 0), v)
        sc = [scale(x, d, target) for x, d in parts]
        return (z3.Sum([p[0] for p in sc]), z3.Sum([p[1] for p in sc])), target
    if e.is_Mul:
        r, i = R1, R0
        den = {}
        for a in e.args:
            (c, d), dd = tr(a)
            r, i = r * c - i * d, r * d + i * c
            for k, v in dd.items():
                den[k] = den.get(k, 0) + v
        return (r, i), den
    if e.is_Pow:
        b, ex = e.args
        assert ex.is_Integer, e
        k = abs(int(ex))
        if ex < 0:
            key = gapkey[b]
            sgn = z3.RealVal(key[2] ** k)
            return (sgn, R0), {key[:2]: k}
        (c, d), dd = tr(b)
        r, i = R1, R0
        for _ in range(k):
            r, i = r * c - i * d, r * d + i * c
        return (r, i), {kk: v * k for kk, v in dd.items()}
    if isinstance(e, conjugate):
        (c, d), dd = tr(e.args[0])
        return (c, -d), dd
    raise NotImplementedError(type(e), e)


Hs = [H0, H1]
for n in range(maxord + 1):
    acc = sympy.zeros(N, N)
    for a in range(n + 1):
        for b in range(min(n - a, 1) + 1):
            c = n - a - b
            acc = acc + Uds[a] * Hs[b] * Us[c]
    diff = acc - Hts[n]
    s = z3.Solver()
    s.set("timeout", 300000)
    t = time.time()
    cl = []
    for d in diff:
        (re, im), _ = tr(d)
        cl += [re != 0, im != 0]
    s.add(z3.Or(cl))
    t1 = time.time()
    r = s.check()
    print("order", n, r, "translate %.2fs solve %.2fs" % (t1 - t, time.time() - t1))
    if r == z3.sat:
        print(s.model())
