"""numpy carrier with real diagonal solver, masks, multi-block."""
import sys, time
import numpy as np, z3
import sym2
from sym2 import SymC, C, hermitian, general, const, differs, check
from pymablock import block_diagonalize
from pymablock.series import BlockSeries, zero, one
sizes=[3,1]; N=4; nb=2; off=np.cumsum([0]+sizes)
E=np.array([0.,1.,1.,3.])  # block A: {0,1,1} (degenerate pair kept), B: {3}: gaps A-B: 3,2,2 -> 3 not dyadic!
E=np.array([0.,2.,2.,4.])  # A-B gaps 4,2,2 ; within A: 2,2,0
mask=np.array([[0,1,0],[1,0,0],[0,0,0]],dtype=bool)  # eliminate (0,1) only; keep (0,2) [gap 2], keep (1,2) degenerate
H1=hermitian("h",N)
H0=np.diag(E)
blk=lambda A,i,j: A[off[i]:off[i+1],off[j]:off[j+1]]
def Heval(i,j,n):
    if n==0: return blk(H0,i,j) if i==j else zero
    if n==1: return blk(H1,i,j)
    return zero
H=BlockSeries(eval=Heval,shape=(nb,nb),n_infinite=1,name="H")
Ht,U,Ud=block_diagonalize(H,fully_diagonalize={0:mask})
def get(S,i,j,n):
    v=S[i,j,n]
    if v is zero: return const(np.zeros((sizes[i],sizes[j])))
    if v is one: return const(np.eye(sizes[i]))
    return v
full=lambda S,n: np.block([[get(S,i,j,n) for j in range(nb)] for i in range(nb)])
maxord=3
Us=[full(U,n) for n in range(maxord+1)]; Uds=[full(Ud,n) for n in range(maxord+1)]; Hts=[full(Ht,n) for n in range(maxord+1)]
Hs=[const(H0),H1]; Z=const(np.zeros((N,N)))
elim=np.zeros((N,N),bool); elim[:3,:3]=mask; elim[:3,3:]=True; elim[3:,:3]=True
for n in range(maxord+1):
    acc=Z
    for a in range(n+1):
        for b in range(min(n-a,1)+1):
            acc=acc+Uds[a]@Hs[b]@Us[n-a-b]
    t=time.time()
    r=check(differs(acc[~elim],Hts[n][~elim]))[0]; r2=check(differs(acc[elim],Z[elim]))[0]
    print(n,"kept differs:",r,"eliminated nonzero:",r2,"%.2fs"%(time.time()-t))
