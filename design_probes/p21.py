"""two-parameter Hermitian, rational spectrum, callback carrier; C01 + C02 per multi-order."""
import sys, time, itertools
from fractions import Fraction
import numpy as np, z3
import sym2
from sym2 import SymC, C, hermitian, general, const, differs, check, lift
from pymablock import block_diagonalize
from pymablock.series import BlockSeries, zero, one
sizes=[int(s) for s in sys.argv[1].split(",")]; tot=int(sys.argv[2])
N=sum(sizes); nb=len(sizes); off=np.cumsum([0]+sizes)
E=[lift(Fraction(x)) for x in [0,1,3,7,12][:N]]
Hs={(1,0):hermitian("p",N),(0,1):hermitian("q",N),(1,1):hermitian("r",N)}
H0=const(np.zeros((N,N)))
for i in range(N): H0[i,i]=E[i]
Hs[(0,0)]=H0
blk=lambda A,i,j: A[off[i]:off[i+1],off[j]:off[j+1]]
def Heval(i,j,*n):
    if n==(0,0): return blk(H0,i,j) if i==j else zero
    return blk(Hs[n],i,j) if n in Hs else zero
def solve(Y,index):
    if Y is zero: return zero
    i,j=index[:2]; out=np.empty(Y.shape,dtype=object)
    for a in range(Y.shape[0]):
        for b in range(Y.shape[1]):
            out[a,b]=Y[a,b]/(E[off[i]+a]-E[off[j]+b])
    return out
H=BlockSeries(eval=Heval,shape=(nb,nb),n_infinite=2,name="H")
Ht,U,Ud=block_diagonalize(H,solve_sylvester=solve)
def get(S,i,j,n):
    v=S[(i,j,*n)]
    if v is zero: return const(np.zeros((sizes[i],sizes[j])))
    if v is one: return const(np.eye(sizes[i]))
    return v
full=lambda S,n: np.block([[get(S,i,j,n) for j in range(nb)] for i in range(nb)])
orders=[n for n in itertools.product(range(tot+1),repeat=2) if sum(n)<=tot]
t=time.time()
Us={n:full(U,n) for n in orders}; Uds={n:full(Ud,n) for n in orders}; Hts={n:full(Ht,n) for n in orders}
print("exec %.2fs"%(time.time()-t))
Z=const(np.zeros((N,N))); I=const(np.eye(N))
sub=lambda n,m: tuple(x-y for x,y in zip(n,m))
for n in orders:
    acc=Z; inv=Z
    for a in orders:
        if any(x>y for x,y in zip(a,n)): continue
        inv=inv+Uds[a]@Us[sub(n,a)]
        for b in Hs:
            c=sub(sub(n,a),b)
            if min(c)<0: continue
            acc=acc+Uds[a]@Hs[b]@Us[c]
    t=time.time()
    r1=check(differs(inv,I if n==(0,0) else Z))[0]; r2=check(differs(acc,Hts[n]))[0]
    print(n,r1,r2,"%.2fs"%(time.time()-t))
