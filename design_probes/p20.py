import numpy as np
from pymablock.series import BlockSeries, zero
from pymablock.algorithm_parsing import series_computation
def prog():
    with "B":
        start = 0
        if diagonal:
            "A" + f("A")
        if offdiagonal:
            f("A" + "A")
    return "B"
A=BlockSeries(eval=lambda i,j,n: np.full((1,1),float(10*i+j+n)) if n else zero, shape=(2,2), n_infinite=1, name="A")
def f(x,index): 
    return (x[index] if isinstance(x,BlockSeries) else x)*2
series,_=series_computation({"A":A},algorithm=prog,scope={"f":f})
for idx in [(0,1,1),(0,0,1)]:
    try: print(idx, series["B"][idx])
    except Exception as e: print(idx,"ERR",type(e).__name__,e, "<-", type(e.__cause__).__name__ if e.__cause__ else None, e.__cause__)
