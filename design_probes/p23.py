import sympy
from sympy import Symbol, I
from pymablock import block_diagonalize
lam=Symbol('lambda',real=True); mu=Symbol('mu',real=True)
E0,E1,E2=sympy.symbols('E0 E1 E2',real=True)
h=sympy.Matrix(3,3,lambda i,j: Symbol(f"h{min(i,j)}{max(i,j)}r",real=True)+(0 if i==j else (1 if i<j else -1)*I*Symbol(f"h{min(i,j)}{max(i,j)}i",real=True)))
k=sympy.Matrix(3,3,lambda i,j: Symbol(f"k{min(i,j)}{max(i,j)}r",real=True)+(0 if i==j else (1 if i<j else -1)*I*Symbol(f"k{min(i,j)}{max(i,j)}i",real=True)))
H0=sympy.diag(E0,E1,E2)
idx=[0,1,1]
A=block_diagonalize([H0,h,k],subspace_indices=idx)
B=block_diagonalize({(0,0):H0,(1,0):h,(0,1):k},subspace_indices=idx)
C=block_diagonalize({sympy.S.One:H0,lam:h,mu:k},subspace_indices=idx)
D=block_diagonalize(H0+lam*h+mu*k,subspace_indices=idx,symbols=[lam,mu])
Dx=block_diagonalize(H0+lam*h+mu*k,subspace_indices=idx,symbols=[mu,lam])
for name,X in (("B",B),("C",C),("D",D),("Dx(mu,lam)",Dx)):
    for n in [(1,0),(0,1),(1,1),(2,0)]:
        a=A[0][(0,0,*n)]; x=X[0][(0,0,*n)]
        if name.startswith("Dx"): x=X[0][(0,0,n[1],n[0])]
        d=sympy.simplify((x-a)[0,0]) ; d2=sympy.simplify((x-a*lam**n[0]*mu**n[1])[0,0])
        print(name,n,"equal:",d==0,"equal up to monomial:",d2==0, X[0].dimension_names)
