import numpy as np, warnings
from scipy import sparse
from pymablock import block_diagonalize
from pymablock.series import zero
E=np.array([0.,1.,1.,3.])
H0=sparse.diags(E).tocsr()
rng=np.random.default_rng(0)
H1=rng.normal(size=(4,4)); H1=H1+H1.T
mask=np.array([[0,1,1],[1,0,0],[1,0,0]],dtype=bool)  # keep degenerate pair (1,2)
for fmt in ("dense","sparse"):
    h1 = H1 if fmt=="dense" else sparse.csr_array(H1)
    with warnings.catch_warnings():
        warnings.simplefilter("ignore")
        try:
            Ht,U,Ud=block_diagonalize([H0,h1],subspace_indices=[0,0,0,1],fully_diagonalize={0:mask})
            for n in range(1,4):
                u=U[0,0,n]
                u=u.toarray() if hasattr(u,"toarray") else np.asarray(u)
                print(fmt,n,"finite:",np.isfinite(u).all(), type(U[0,0,n]).__name__)
        except Exception as e:
            print(fmt,"ERR",type(e).__name__,e)
