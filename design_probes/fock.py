"""Probe: general evaluator — action of a sympy operator expression on a symbolic Fock state."""
import sympy, z3
from sympy.physics.quantum import Dagger, pauli
from sympy.physics.quantum.boson import BosonOp
from sympy.physics.quantum.fermion import FermionOp
import sym2
from sym2 import SymC, lift
from pymablock.number_ordered_form import NumberOperator, LadderOp, NumberOrderedForm

R1 = z3.RealVal(1)


class Fock:
    """modes: list of annihilation operators in JW/library order. state: dict shift(tuple)->SymC."""

    def __init__(self, modes, params=()):
        self.modes = list(modes)
        self.n = [z3.Real(f"n_{m.name}") for m in self.modes]
        self.params = {p: z3.Real(str(p)) for p in params}
        self.cons = []
        for m, n in zip(self.modes, self.n):
            if isinstance(m, (FermionOp, pauli.SigmaMinus)):
                self.cons.append(z3.Or(n == 0, n == 1))
            elif isinstance(m, BosonOp):
                self.cons.append(n >= 0)

    def idx(self, op):
        for k, m in enumerate(self.modes):
            if type(m) is type(op) and m.name == op.name:
                return k
        raise KeyError(op)

    def init(self):
        return {(0,) * len(self.modes): SymC(R1)}

    def occ(self, shift, k):
        return SymC(self.n[k]) + shift[k]

    # --- primitive actions on a single basis component
    def lower(self, k, shift, c):
        m = self.modes[k]
        o = self.occ(shift, k)
        ns = tuple(s - 1 if i == k else s for i, s in enumerate(shift))
        if isinstance(m, BosonOp):
            return ns, c * o
        if isinstance(m, LadderOp):
            return ns, c
        if isinstance(m, FermionOp):
            for j, mj in enumerate(self.modes[:k]):
                if isinstance(mj, FermionOp):
                    c = c * (1 - 2 * self.occ(shift, j))
            return ns, c * o
        return ns, c * o  # spin / hard-core

    def raise_(self, k, shift, c):
        m = self.modes[k]
        o = self.occ(shift, k)
        ns = tuple(s + 1 if i == k else s for i, s in enumerate(shift))
        if isinstance(m, (BosonOp, LadderOp)):
            return ns, c
        if isinstance(m, FermionOp):
            for j, mj in enumerate(self.modes[:k]):
                if isinstance(mj, FermionOp):
                    c = c * (1 - 2 * self.occ(shift, j))
            return ns, c * (1 - o)
        return ns, c * (1 - o)

    def scalar(self, e, shift):
        """commutative / number-only expression -> SymC at occupations n+shift"""
        if isinstance(e, NumberOperator):
            k = next(i for i, m in enumerate(self.modes) if m.name == e.name and type(m).__name__ in (str(e.args[1]), "SigmaMinus" if str(e.args[1]) == "SigmaOpBase" else str(e.args[1])))
            return self.occ(shift, k)
        if isinstance(e, pauli.SigmaZ):
            return 2 * self.occ(shift, self.idx(pauli.SigmaMinus(e.name))) - 1
        if e.is_Symbol:
            if e not in self.params:
                self.params[e] = z3.Real(str(e))
            return SymC(self.params[e])
        if e.is_Rational:
            return lift(__import__("fractions").Fraction(int(e.p), int(e.q)))
        if e == sympy.I:
            return SymC(z3.RealVal(0), R1)
        if e.is_Add:
            r = self.scalar(e.args[0], shift)
            for x in e.args[1:]:
                r = r + self.scalar(x, shift)
            return r
        if e.is_Mul:
            r = SymC(R1)
            for x in e.args:
                r = r * self.scalar(x, shift)
            return r
        if e.is_Pow and e.args[1].is_Integer:
            b = self.scalar(e.args[0], shift)
            k = int(e.args[1])
            r = SymC(R1)
            for _ in range(abs(k)):
                r = r * b
            return r.inverse() if k < 0 else r
        raise NotImplementedError(("scalar", type(e), e))

    def is_scalar(self, e):
        return not e.has(BosonOp, FermionOp, LadderOp, pauli.SigmaMinus, pauli.SigmaPlus, pauli.SigmaX, pauli.SigmaY)

    def act(self, e, state):
        e = sympy.sympify(e)
        if isinstance(e, NumberOrderedForm):
            e = e.as_expr()
        if self.is_scalar(e):
            return {s: c * self.scalar(e, s) for s, c in state.items()}
        if e.is_Add:
            out = {}
            for x in e.args:
                for s, c in self.act(x, state).items():
                    out[s] = out[s] + c if s in out else c
            return out
        if e.is_Mul:
            for x in reversed(e.args):
                state = self.act(x, state)
            return state
        if e.is_Pow and e.args[1].is_Integer and e.args[1] > 0:
            for _ in range(int(e.args[1])):
                state = self.act(e.args[0], state)
            return state
        if isinstance(e, (BosonOp, FermionOp, LadderOp)):
            k = self.idx(e if e.is_annihilation else Dagger(e))
            f = self.lower if e.is_annihilation else self.raise_
            out = {}
            for s, c in state.items():
                ns, nc = f(k, s, c)
                out[ns] = out[ns] + nc if ns in out else nc
            return out
        if isinstance(e, (pauli.SigmaMinus, pauli.SigmaPlus)):
            k = self.idx(pauli.SigmaMinus(e.name))
            f = self.lower if isinstance(e, pauli.SigmaMinus) else self.raise_
            out = {}
            for s, c in state.items():
                ns, nc = f(k, s, c)
                out[ns] = out[ns] + nc if ns in out else nc
            return out
        if isinstance(e, pauli.SigmaX):
            return self.act(pauli.SigmaMinus(e.name) + pauli.SigmaPlus(e.name), state)
        if isinstance(e, pauli.SigmaY):
            return self.act(sympy.I * pauli.SigmaMinus(e.name) - sympy.I * pauli.SigmaPlus(e.name), state)
        raise NotImplementedError(("act", type(e), e))

    def differ(self, s1, s2, timeout=60000):
        keys = set(s1) | set(s2)
        cl = []
        for k in keys:
            d = s1.get(k, lift(0)) - s2.get(k, lift(0))
            cl += d.nonzero_clauses()
        s = z3.Solver()
        s.set("timeout", timeout)
        s.add(self.cons)
        for t in sym2.ATOMS.values():
            s.add(t != 0)
        s.add(z3.Or(cl))
        r = s.check()
        return str(r), (s.model() if r == z3.sat else None)
