"""Probe: NumberOrderedForm products vs reference word action on a symbolic Fock state (bosons + fermions)."""
import itertools, time
import sympy, z3
from sympy.physics.quantum import Dagger
from sympy.physics.quantum.boson import BosonOp
from sympy.physics.quantum.fermion import FermionOp
from pymablock.number_ordered_form import NumberOrderedForm, NumberOperator

a, b = BosonOp("a"), BosonOp("b")
c, d, e = FermionOp("c"), FermionOp("d"), FermionOp("e")

# A "state" is (coeff: z3 Real term, occ: dict mode-> z3 term), None for the zero vector
# Unnormalised Fock basis for bosons: a z^n = n z^(n-1), a† z^n = z^(n+1).
# Fermions: JW order by list index; c_k |n> = (-1)^{sum_{j<k} n_j} n_k |n_k -> 0>, using polynomial parity (1-2 n_j).


class Ctx:
    def __init__(self, bosons, fermions):
        self.bosons, self.fermions = bosons, fermions
        self.n = {m: z3.Int(f"n_{m.name}") for m in bosons + fermions}
        self.cons = [self.n[m] >= 0 for m in bosons] + [z3.Or(self.n[m] == 0, self.n[m] == 1) for m in fermions]

    def init(self):
        return (z3.IntVal(1), dict((m, self.n[m]) for m in self.bosons + self.fermions))

    def apply_letter(self, letter, st):
        """letter: ('a',mode,dagger?) / ('N', mode) / ('s', z3 term)"""
        coeff, occ = st
        occ = dict(occ)
        kind = letter[0]
        if kind == "s":
            return (coeff * letter[1], occ)
        m = letter[1]
        if kind == "N":
            return (coeff * occ[m], occ)
        dag = letter[2]
        if m in self.bosons:
            if dag:
                occ[m] = occ[m] + 1
                return (coeff, occ)
            coeff = coeff * occ[m]
            occ[m] = occ[m] - 1
            return (coeff, occ)
        # fermion
        k = self.fermions.index(m)
        for j in self.fermions[:k]:
            coeff = coeff * (1 - 2 * occ[j])
        if dag:
            coeff = coeff * (1 - occ[m])
            occ[m] = occ[m] + 1
        else:
            coeff = coeff * occ[m]
            occ[m] = occ[m] - 1
        return (coeff, occ)

    def apply_word(self, word):
        st = self.init()
        for letter in reversed(word):
            st = self.apply_letter(letter, st)
        return st

    def nof_action(self, nof):
        """Action of a NumberOrderedForm on the symbolic state: list of (coeff, occ)."""
        ops = list(nof.operators)
        out = []
        for powers, coeff in nof.args[1]:
            word = []
            # creation part (ordered as in as_expr: operators in order, creation left)
            for op, p in zip(ops, powers):
                if p < 0:
                    word += [("a", op, True)] * int(-p)
            word.append(("f", coeff, nof))
            for op, p in zip(reversed(ops), reversed(list(powers))):
                if p > 0:
                    word += [("a", op, False)] * int(p)
            st = self.init()
            for letter in reversed(word):
                if letter[0] == "f":
                    cf = self.tr(letter[1], st[1], letter[2])
                    st = (st[0] * cf, st[1])
                else:
                    st = self.apply_letter(letter, st)
            out.append(st)
        return out

    def tr(self, e, occ, nof):
        ph = {p: occ[next(m for m in self.bosons + self.fermions if m.name == no.name)] for p, no in nof._placeholder_to_number_operator.items()}
        def rec(e):
            if e in ph:
                return ph[e]
            if e.is_Integer:
                return z3.IntVal(int(e))
            if e.is_Add:
                return z3.Sum([rec(x) for x in e.args])
            if e.is_Mul:
                r = z3.IntVal(1)
                for x in e.args:
                    r = r * rec(x)
                return r
            if e.is_Pow and e.args[1].is_Integer and e.args[1] > 0:
                r = z3.IntVal(1)
                for _ in range(int(e.args[1])):
                    r = r * rec(e.args[0])
                return r
            raise NotImplementedError(e)
        return rec(e)


def letters_to_expr(word):
    out = []
    for l in word:
        if l[0] == "a":
            out.append(Dagger(l[1]) if l[2] else l[1])
        elif l[0] == "N":
            out.append(NumberOperator(l[1]))
    return out


def check_product(ctx, wordL, wordR):
    """(nof(wordL)) * (nof(wordR)) vs word action of concatenation."""
    def nof_of(word):
        r = None
        for x in letters_to_expr(word):
            f = NumberOrderedForm.from_expr(x, operators=ctx.bosons + ctx.fermions)
            r = f if r is None else r * f
        return r
    L, R = nof_of(wordL), nof_of(wordR)
    P = L * R
    ref = ctx.apply_word(wordL + wordR)
    got = ctx.nof_action(P)
    # group by final occupation shift (syntactic): compare total coefficient per distinct final occ
    s = z3.Solver(); s.set("timeout", 20000)
    s.add(ctx.cons)
    # Sum of got coefficients with matching shift must equal ref coefficient; others must be zero
    def shift(occ):
        return tuple(str(z3.simplify(occ[m] - ctx.n[m])) for m in ctx.bosons + ctx.fermions)
    tot = {}
    for cf, occ in got:
        tot[shift(occ)] = tot.get(shift(occ), 0) + cf
    tot[shift(ref[1])] = tot.get(shift(ref[1]), 0) - ref[0]
    s.add(z3.Or([t != 0 for t in tot.values()]))
    r = s.check()
    return str(r), (s.model() if r == z3.sat else None), P


ctx = Ctx([a], [c, d, e])
t = time.time()
r, m, P = check_product(ctx, [("N", a), ("a", a, False), ("a", a, False)], [("a", a, True)])
print("(N a^2) * a† :", r, m, "lib:", P, "%.2fs" % (time.time() - t))
t = time.time()
r, m, P = check_product(ctx, [("a", c, True)], [("a", d, False), ("a", e, False)])
print("c† * (d e):", r, m, "lib:", P, "%.2fs" % (time.time() - t))
r, m, P = check_product(ctx, [("a", c, False)], [("a", d, False), ("a", e, False)])
print("c * (d e):", r, m, "lib:", P)
r, m, P = check_product(ctx, [("a", e, False)], [("a", c, True), ("a", d, False)])
print("e * (c† d):", r, m, "lib:", P)
# exhaustive small: all pairs of words up to len 2 over boson a alphabet
alpha = [("a", a, True), ("a", a, False), ("N", a)]
bad = 0; tot = 0; t = time.time()
for l1 in range(1, 4):
    for l2 in range(1, 3):
        for w1 in itertools.product(alpha, repeat=l1):
            for w2 in itertools.product(alpha, repeat=l2):
                r, m, P = check_product(ctx, list(w1), list(w2))
                tot += 1
                if r != "unsat":
                    bad += 1
                    if bad < 4:
                        print("  ", r, letters_to_expr(w1), "*", letters_to_expr(w2), "->", P, m)
print("boson words:", tot, "non-unsat:", bad, "%.1fs" % (time.time() - t))
