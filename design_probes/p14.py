import numpy as np, z3, ast, inspect
import sym2
from sym2 import general, hermitian, const, differs, check
from pymablock.series import BlockSeries, zero, one
from pymablock.algorithm_parsing import series_computation, _parse_algorithm

def prog():
    with "B":
        start = 0
        hermitian
        if diagonal:
            "A" + "A".adj
        if offdiagonal:
            "A" / 2 - "C @ A"

    with "C":
        start = "A_0"
        "B" + f("A @ B")
        if offdiagonal:
            g("B")

    with "C @ A":
        pass

    with "A @ B":
        pass

    return "C"

sizes=[1,2]; nb=2
A0=[[general(f"a0_{i}{j}",sizes[i],sizes[j]) for j in range(nb)] for i in range(nb)]
A1=[[general(f"a1_{i}{j}",sizes[i],sizes[j]) for j in range(nb)] for i in range(nb)]
def Aeval(i,j,n):
    return [A0,A1][n-1][i][j] if 0<n<3 else zero
A=BlockSeries(eval=Aeval,shape=(nb,nb),n_infinite=1,name="A")
calls=[]
def f(x, index): calls.append(("f",type(x).__name__,index)); return x[index]*3
def g(x, index): calls.append(("g",type(x).__name__,index)); return x[index]*5 if isinstance(x,BlockSeries) else x*5
series,_=series_computation({"A":A},algorithm=prog,scope={"f":f,"g":g})
print(sorted(series))
for t in _parse_algorithm(prog)[0]:
    print("----",t.name,"start",t.start); print(ast.unparse(t.definition))
for name in ("B","C"):
    for idx in [(0,0,0),(0,1,0),(0,1,1),(1,0,1),(0,0,1),(1,1,2)]:
        try:
            v=series[name][idx]
            print(name,idx, "zero" if v is zero else ("one" if v is one else getattr(v,'shape',v)))
        except Exception as e:
            print(name,idx,"ERR",type(e).__name__,e)
print(calls[:6])
print({k:sorted(v._data) for k,v in series.items()})
print("=== reference comparison")
conj=np.conjugate
def Aget(i,j,n):
    v=A[i,j,n]; return const(np.zeros((sizes[i],sizes[j]))) if v is zero else v
memo={}
def prod(X,Y,i,j,n):
    acc=const(np.zeros((sizes[i],sizes[j])))
    for k in range(nb):
        for m in range(n+1):
            if X is Aget and A[i,k,m] is zero: continue
            if Y is Aget and A[k,j,n-m] is zero: continue
            if X is not Aget and m==0: continue   # start data of C is A_0 = zero, of B is 0
            if Y is not Aget and n-m==0: continue
            acc=acc+X(i,k,m)@Y(k,j,n-m)
    return acc
def Bv(i,j,n):
    key=("B",i,j,n)
    if key in memo: return memo[key]
    if n==0: r=const(np.zeros((sizes[i],sizes[j])))
    elif i>j: r=conj(Bv(j,i,n)).T
    elif i==j: r=Aget(i,j,n)+conj(Aget(i,j,n)).T
    else: r=Aget(i,j,n)/2-prod(Cv,Aget,i,j,n)
    memo[key]=r; return r
def Cv(i,j,n):
    key=("C",i,j,n)
    if key in memo: return memo[key]
    if n==0: r=Aget(i,j,0)
    else:
        r=Bv(i,j,n)+prod(Aget,Bv,i,j,n)*3
        if i!=j: r=r+Bv(i,j,n)*5
    memo[key]=r; return r
for name,ref in (("B",Bv),("C",Cv)):
    for i in range(nb):
        for j in range(nb):
            for n in range(3):
                v=series[name][i,j,n]
                v=const(np.zeros((sizes[i],sizes[j]))) if v is zero else v
                print(name,(i,j,n),check(differs(v,ref(i,j,n)))[0],end="; ")
    print()
