"""Probe: real block_diagonalize on object arrays of SymC with a symbolic Sylvester callback."""
import sys, time
import numpy as np, z3
import sym2
from sym2 import SymC, C, hermitian, general, const, differs, check, lift
from pymablock import block_diagonalize
from pymablock.series import BlockSeries, zero, one

sizes = [int(s) for s in sys.argv[1].split(",")]
maxord = int(sys.argv[2])
herm = sys.argv[3] == "herm"
degenerate = len(sys.argv) > 4 and sys.argv[4] == "deg"  # each block degenerate
N = sum(sizes)
nb = len(sizes)
off = np.cumsum([0] + sizes)
blockof = [b for b, s in enumerate(sizes) for _ in range(s)]
numE = len(sys.argv) > 4 and sys.argv[4] == "num"
if numE:
    from fractions import Fraction
    E = [lift(Fraction(x)) for x in [0, 1, 3, 7, 12, 20][:N]]
elif degenerate:
    Eb = [C(f"E{b}", not herm) for b in range(nb)]
    E = [Eb[blockof[i]] for i in range(N)]
else:
    E = [C(f"E{i}", not herm) for i in range(N)]
H1 = hermitian("h", N) if herm else general("h", N)
H0 = const(np.zeros((N, N)))
for i in range(N):
    H0[i, i] = E[i]


def blk(A, i, j):
    return A[off[i]:off[i + 1], off[j]:off[j + 1]]


def Heval(i, j, n):
    if n == 0:
        return blk(H0, i, j) if i == j else zero
    if n == 1:
        return blk(H1, i, j)
    return zero


def solve(Y, index):
    if Y is zero:
        return zero
    i, j = index[:2]
    out = np.empty(Y.shape, dtype=object)
    for a in range(Y.shape[0]):
        for b in range(Y.shape[1]):
            out[a, b] = Y[a, b] / (E[off[i] + a] - E[off[j] + b])
    return out


H = BlockSeries(eval=Heval, shape=(nb, nb), n_infinite=1, name="H")
t = time.time()
Ht, U, Ui = block_diagonalize(H, solve_sylvester=solve, hermitian=herm)


def get(S, i, j, n):
    v = S[i, j, n]
    if v is zero:
        return const(np.zeros((sizes[i], sizes[j])))
    if v is one:
        return const(np.eye(sizes[i]))
    return v


def full(S, n):
    return np.block([[get(S, i, j, n) for j in range(nb)] for i in range(nb)])


Us = [full(U, n) for n in range(maxord + 1)]
Uis = [full(Ui, n) for n in range(maxord + 1)]
Hts = [full(Ht, n) for n in range(maxord + 1)]
print("exec %.2fs" % (time.time() - t))
Hs = [H0, H1]
Z = const(np.zeros((N, N)))
I = const(np.eye(N))
for n in range(maxord + 1):
    acc, inv = Z, Z
    for a in range(n + 1):
        inv = inv + Uis[a] @ Us[n - a]
        for b in range(min(n - a, 1) + 1):
            acc = acc + Uis[a] @ Hs[b] @ Us[n - a - b]
    t = time.time()
    r1, m1 = check(differs(inv, I if n == 0 else Z))
    r2, m2 = check(differs(acc, Hts[n]))
    print("order", n, "UinvU!=1:", r1, " UinvHU!=Ht:", r2, "%.2fs" % (time.time() - t))
    if m2 is not None:
        print("  cex:", {str(d): m2[d] for d in m2.decls()})
# dump last query
s = z3.Solver()
for t_ in sym2.ATOMS.values(): s.add(t_ != 0)
s.add(differs(acc, Hts[maxord]))
open("q.smt2","w").write("(set-logic QF_NRA)\n"+s.to_smt2())
