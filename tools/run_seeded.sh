#!/usr/bin/env bash
# usage: tools/run_seeded.sh [id-glob]      e.g. tools/run_seeded.sh 'C07-*'
# Re-runs every kept seeded change against the checks recorded in its meta.json ("caught_by", at the recorded tier) in a scratch
# worktree of /repo's HEAD and prints one line per (change, check): CAUGHT (exit 1 with a VIOLATION line), MISSED (exit 0) or
# OTHER (exit 2/3).  Changes with an empty "caught_by" are run against the property they break and are expected to be MISSED
# (declared not applicable, see DESIGN.md section 7).  /repo itself is never modified.
set -uo pipefail
cd "$(dirname "$0")/.."
GLOB="${1:-*}"
for d in seeded/$GLOB/; do
  id=$(basename "$d")
  [ -f "$d/meta.json" ] || continue
  tier=$(python3 -c "import json;print(json.load(open('$d/meta.json')).get('tier') or 'quick')")
  checks=$(python3 -c "import json;m=json.load(open('$d/meta.json'));print(' '.join(m.get('caught_by') or [m['breaks_property']]))")
  expect=$(python3 -c "import json;m=json.load(open('$d/meta.json'));print('CAUGHT' if m.get('caught_by') else 'MISSED')")
  if ! git -C /repo apply --check "$PWD/$d/patch.diff" 2>/dev/null; then echo "$id PATCH-DOES-NOT-APPLY"; continue; fi
  tools/try_mutant.sh "$PWD/$d/patch.diff" "$tier" $checks 2>/dev/null | grep -E "^C[0-9]+ exit=" | while read -r line; do
    code=$(echo "$line" | sed -E 's/^C[0-9]+ exit=([0-9]+).*/\1/')
    chk=$(echo "$line" | cut -d' ' -f1)
    case "$code" in 1) got=CAUGHT;; 0) got=MISSED;; *) got="OTHER($code)";; esac
    flag=""; [ "$got" != "$expect" ] && flag="   <-- expected $expect"
    echo "$id $chk $tier $got$flag"
  done
done
find /verif/replays -name '*.json' -delete 2>/dev/null
