#!/usr/bin/env python3
"""usage: tools/keep_mutant.py <seed-id> <mutant-dir> <property> <tests-to-run (comma sep, or 'none')> <caught_by (comma sep)> <tier>
Confirms a seeded change in a fresh scratch worktree (demo passes without / fails with the patch, named test files
still pass with it) and stores it as /verif/seeded/<seed-id>/ (patch.diff, demo.py, meta.json)."""
import json, os, shutil, subprocess, sys, tempfile
sid, mdir, prop, tests, caught, tier = sys.argv[1:7]
W = tempfile.mkdtemp(prefix="mk_", dir="/tmp"); os.rmdir(W)
run = lambda *a, **k: subprocess.run(*a, capture_output=True, text=True, **k)
run(["git", "-C", "/repo", "worktree", "add", "-q", "--detach", W, "HEAD"])
try:
    d = run(["git", "-C", "/repo", "diff"]).stdout
    if d.strip():
        subprocess.run(["git", "-C", W, "apply"], input=d, text=True, check=True)
    env = dict(os.environ, PYTHONPATH=W)
    demo = os.path.join(mdir, "demo.py")
    r0 = run(["/venv/bin/python", demo], cwd=W, env=env, timeout=900)
    assert run(["git", "-C", W, "apply", os.path.join(mdir, "patch.diff")]).returncode == 0, "patch does not apply"
    r1 = run(["/venv/bin/python", demo], cwd=W, env=env, timeout=900)
    tests_ok = None
    tcmd = None
    if tests != "none":
        files = [f"pymablock/tests/{t}" for t in tests.split(",")]
        tcmd = f"cd <worktree> && PYTHONPATH=<worktree> /venv/bin/python -m pytest -q -p no:cacheprovider -o addopts= -p randomly " + " ".join(files)
        # compare with the unpatched worktree run of the same files
        def passed(patched):
            x = run(["/venv/bin/python", "-m", "pytest", "-q", "-p", "no:cacheprovider", "-o", "addopts=", "-p", "randomly", "-p", "no:randomly", "-rA", *files], cwd=W, env=env, timeout=3000)
            return sorted(l.split(" ")[1] for l in x.stdout.splitlines() if l.startswith("PASSED "))
        p_with = passed(True)
        run(["git", "-C", W, "checkout", "--", "."])
        if d.strip():
            subprocess.run(["git", "-C", W, "apply"], input=d, text=True, check=True)
        p_without = passed(False)
        tests_ok = set(p_without) <= set(p_with)
    ok = r0.returncode == 0 and r1.returncode != 0 and tests_ok is not False
    print(f"demo without patch: exit {r0.returncode}; with patch: exit {r1.returncode}; tests still passing: {tests_ok} ({tests})")
    if not ok:
        print(r0.stdout[-500:], r0.stderr[-500:], r1.stdout[-300:], r1.stderr[-300:])
        sys.exit(1)
    out = f"/verif/seeded/{sid}"
    os.makedirs(out, exist_ok=True)
    shutil.copy(os.path.join(mdir, "patch.diff"), out)
    shutil.copy(demo, out)
    meta_txt = open(os.path.join(mdir, "meta.txt")).read() if os.path.exists(os.path.join(mdir, "meta.txt")) else ""
    json.dump({
        "id": sid, "breaks_property": prop, "origin": "independent sub-agent given only the property text and a scratch worktree",
        "needs_to_manifest": meta_txt.strip(),
        "confirmed": {"demo_exit_without_patch": r0.returncode, "demo_exit_with_patch": r1.returncode,
                      "test_files_rerun_with_patch": tests, "baseline_passing_tests_still_pass": tests_ok, "test_cmd": tcmd,
                      "base_commit": run(["git", "-C", "/repo", "rev-parse", "--short", "HEAD"]).stdout.strip()},
        "caught_by": [c for c in caught.split(",") if c], "tier": tier,
        "how_run": f"tools/try_mutant.sh seeded/{sid}/patch.diff {tier} <checks>  (scratch worktree of /repo HEAD via VERIF_REPO; /repo itself untouched)",
    }, open(os.path.join(out, "meta.json"), "w"), indent=1)
    print("kept", out)
finally:
    run(["git", "-C", "/repo", "worktree", "remove", "--force", W])
