#!/usr/bin/env bash
# usage: tools/try_mutant.sh <patch.diff> <tier> <Cxx> [Cyy ...]
# Applies a seeded change to a scratch worktree of /repo's HEAD (+ /repo's uncommitted edits), runs the given
# checks against it (VERIF_REPO), prints one line per check and removes the scratch worktree again.
set -uo pipefail
PATCH="$1"; TIER="$2"; shift 2
W=$(mktemp -d /tmp/mw_XXXXXX); rmdir "$W"
git -C /repo worktree add -q --detach "$W" HEAD
if ! git -C /repo diff --quiet; then git -C /repo diff | git -C "$W" apply; fi
if ! git -C "$W" apply "$PATCH"; then echo "PATCH DOES NOT APPLY"; git -C /repo worktree remove --force "$W"; exit 9; fi
for P in "$@"; do
  out=$(VERIF_REPO="$W" /verif/bin/vcheck "$P" --tier "$TIER" --no-evidence 2>&1)
  code=$?
  echo "$P exit=$code :: $(echo "$out" | grep -E "^$P \[" | tail -1 | cut -c1-220)"
  echo "$out" | grep -E "^(VIOLATION|KNOWN)" | head -2 | cut -c1-200
done
git -C /repo worktree remove --force "$W"
find /verif/replays -name '*.json' -newer "$PATCH" -print0 2>/dev/null | xargs -0 -r ls >/dev/null
