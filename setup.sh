#!/usr/bin/env bash
# Idempotent bootstrap of the check environment (offline).
#   /verif/.venv = overlay of /venv (pymablock deps) + /repo (current working tree) + z3-solver, cvc5, crosshair-tool
# Called by MANIFEST.setup_cmd and by bin/vcheck before every check, so that a
# fresh copy with committed files only can still run the checks.
set -euo pipefail
HERE="$(cd "$(dirname "${BASH_SOURCE[0]}")" && pwd)"
VENV="$HERE/.venv"
WHEELS=/opt/veriftools/wheels
export PIP_NO_INDEX=1 PIP_DISABLE_PIP_VERSION_CHECK=1
exec 9>"$HERE/.setup.lock"
flock 9
if [ ! -x "$VENV/bin/python" ] || ! "$VENV/bin/python" -c "import z3, crosshair, cvc5, numpy, sympy, scipy" 2>/dev/null; then
    rm -rf "$VENV"
    /venv/bin/python -m venv "$VENV"
    SP="$VENV/lib/python3.12/site-packages"
    printf '%s\n' "/venv/lib/python3.12/site-packages" > "$SP/zz_overlay.pth"
    "$VENV/bin/pip" install -q --no-index --find-links "$WHEELS" z3-solver cvc5 crosshair-tool >/dev/null
fi
# pymablock itself always comes from /repo's working tree (PYTHONPATH set by bin/vcheck).
"$VENV/bin/python" - <<'EOF'
import sys
sys.path.insert(0, "/repo")
import z3, cvc5, crosshair, numpy, scipy, sympy, pymablock
assert pymablock.__file__.startswith("/repo/"), pymablock.__file__
EOF
echo "setup ok"
