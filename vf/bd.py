"""Block-diagonalisation problems on the symbolic carriers, and the independent oracles.

A problem is described by a JSON-able config:
  carrier   "B" (callback solver, symbolic or rational spectrum, no masks)
            "A" (numeric dyadic H0, real solve_sylvester_diagonal numpy branch, masks allowed)
            "C" (sympy symbolic mode, translated to SymC; masks + symbolic spectrum)
  hermitian bool
  sizes     block sizes
  spectrum  "sym" | "symdeg" (one variable per block) | list of numbers (str fractions / "a+bj" complex)
  classes   optional list (len N) of level-class ids for "sym" (equal id -> same variable)
  terms     list of multi-orders carrying a perturbation term
  max_order total order up to which outputs are checked
  fd        None | list of block ids | {block: 0/1 matrix}   (fully_diagonalize)
"""
from __future__ import annotations

import itertools
from fractions import Fraction

import numpy as np

from . import symc
from .symc import SymC, lift

# ------------------------------------------------------------------------------------------------
# helpers


def parse_number(x):
    """'3/2' | 2 | '1/2+3/4j' -> (Fraction re, Fraction im)."""
    if isinstance(x, (int, Fraction)):
        return Fraction(x), Fraction(0)
    if isinstance(x, (list, tuple)):
        return Fraction(x[0]), Fraction(x[1])
    s = str(x).replace(" ", "")
    if s.endswith("j"):
        body = s[:-1]
        # split at last +/- not at start
        k = max(body.rfind("+"), body.rfind("-"))
        if k <= 0:
            return Fraction(0), Fraction(body)
        return Fraction(body[:k]), Fraction(body[k:])
    return Fraction(s), Fraction(0)


def orders_upto(nparams, total):
    return [o for o in itertools.product(range(total + 1), repeat=nparams) if sum(o) <= total]


def compositions(order, parts):
    """All ways to write multi-order `order` as an ordered sum of `parts` multi-orders."""
    if parts == 1:
        yield (tuple(order),)
        return
    for first in itertools.product(*(range(o + 1) for o in order)):
        rest = tuple(o - f for o, f in zip(order, first))
        for tail in compositions(rest, parts - 1):
            yield (first,) + tail



def _mask_array(m):
    """Elimination mask as the library accepts it: boolean, or 0/1 integers (both forms are used by the library's own tests);
    the form is chosen deterministically by the parity of the number of eliminated elements so that both are exercised."""
    m = np.array(m, dtype=bool)
    return m.astype(int) if int(m.sum()) % 2 else m


class Series:
    """Dense series: dict multi-order -> N x M object matrix of SymC (absent = zero)."""

    def __init__(self, shape, nparams, data=None):
        self.shape = shape
        self.nparams = nparams
        self.data = dict(data or {})

    def get(self, order):
        v = self.data.get(tuple(order))
        if v is None:
            return symc.zeros(*self.shape)
        return v

    def __contains__(self, order):
        return tuple(order) in self.data


def cauchy(factors, order):
    """Own multivariate Cauchy product of dense Series at one multi-order (plain nested loops)."""
    k = len(factors)
    acc = symc.zeros(factors[0].shape[0], factors[-1].shape[1])
    for comp in compositions(tuple(order), k):
        if any(c not in f for c, f in zip(comp, factors)):
            continue
        term = factors[0].data[comp[0]]
        for f, c in zip(factors[1:], comp[1:]):
            term = symc.mm(term, f.data[c])
        acc = acc + term
    return acc


def dagger_series(S):
    return Series(S.shape[::-1], S.nparams, {o: symc.dagger(v) for o, v in S.data.items()})


# ------------------------------------------------------------------------------------------------
# problem construction


class Problem:
    def __init__(self, cfg, E=None, classes=None, terms_data=None):
        """cfg as described in the module docstring; E / classes / terms_data override the generated symbolic data
        (used by the relational checks C12-C15 which need two related problems over the same variables)."""
        self.cfg = cfg
        self._E_override = E
        self._classes_override = classes
        self._terms_override = terms_data
        self.hermitian = bool(cfg.get("hermitian", True))
        self.sizes = list(cfg["sizes"])
        self.nb = len(self.sizes)
        self.N = sum(self.sizes)
        self.off = np.cumsum([0] + self.sizes)
        self.blockof = [b for b, s in enumerate(self.sizes) for _ in range(s)]
        if terms_data is not None:
            self.terms = sorted(tuple(t) for t in terms_data)
            self.nparams = len(self.terms[0]) if self.terms else int(cfg.get("nparams", 1))
        else:
            self.terms = [tuple(t) for t in cfg.get("terms", [[1]])]
            self.nparams = len(self.terms[0])
        self.max_order = int(cfg.get("max_order", 2))
        self.orders = orders_upto(self.nparams, self.max_order)
        self.zero_order = (0,) * self.nparams
        self.carrier = cfg.get("carrier", "B")
        self._build_spectrum()
        self._build_terms()
        self._build_elim()

    # spectrum ------------------------------------------------------------------------------
    def _build_spectrum(self):
        spec = self.cfg.get("spectrum", "sym")
        cplx = not self.hermitian and self.cfg.get("complex_spectrum", True)
        N = self.N
        self.E_num = None
        if self._E_override is not None:
            self.E = [lift(e) for e in self._E_override]
            cv = [e.const_value() for e in self.E]
            if all(c is not None for c in cv):
                self.E_num = cv
            if self._classes_override is not None:
                self.classes = list(self._classes_override)
            else:
                assert self.E_num is not None, "symbolic E override needs explicit classes"
                uniq = {}
                self.classes = [uniq.setdefault(v, len(uniq)) for v in self.E_num]
        elif spec == "sym":
            classes = self.cfg.get("classes") or list(range(N))
            ev = {}
            self.E = []
            for i in range(N):
                c = classes[i]
                if c not in ev:
                    ev[c] = symc.C(f"E{c}", cplx)
                self.E.append(ev[c])
            self.classes = list(classes)
        elif spec == "symdeg":
            ev = [symc.C(f"E{b}", cplx) for b in range(self.nb)]
            self.E = [ev[self.blockof[i]] for i in range(N)]
            self.classes = list(self.blockof)
        else:
            vals = [parse_number(x) for x in spec]
            assert len(vals) == N
            self.E_num = vals
            self.E = [SymC(symc._rv(a), symc._rv(b)) for a, b in vals]
            uniq = {}
            self.classes = [uniq.setdefault(v, len(uniq)) for v in vals]
        # well-posedness precondition: levels in different blocks are different
        for i in range(N):
            for j in range(N):
                if self.blockof[i] != self.blockof[j] and self.classes[i] == self.classes[j]:
                    raise ValueError("ill-posed config: coupled blocks share a level")

    def _build_terms(self):
        N = self.N
        self.H0 = symc.zeros(N, N)
        for i in range(N):
            self.H0[i, i] = self.E[i]
        self.H = Series((N, N), self.nparams, {self.zero_order: self.H0})
        real_only = self.cfg.get("real", False)
        if self._terms_override is not None:
            for t, M in self._terms_override.items():
                self.H.data[tuple(t)] = np.asarray(M, dtype=object)
            return
        for t_i, t in enumerate(self.terms):
            name = "h" + "".join(map(str, t)) + "_"
            if self.hermitian or self.cfg.get("hermitian_input", False):
                M = symc.hermitian(name, N)
                if real_only:
                    M = np.vectorize(lambda x: SymC(x.re), otypes=[object])(M)
            else:
                M = symc.general(name, N, complex_=not real_only)
            self.H.data[t] = M

    def _build_elim(self):
        """Which matrix elements are to be eliminated (independent of the library's own bookkeeping)."""
        N = self.N
        fd = self.cfg.get("fd")
        elim = np.zeros((N, N), dtype=bool)
        for i in range(N):
            for j in range(N):
                if self.blockof[i] != self.blockof[j]:
                    elim[i, j] = True
        if fd is None and self.nb == 1:
            fd = [0]
        if isinstance(fd, dict):
            for b, m in fd.items():
                b = int(b) % self.nb  # a negative block index counts from the end
                m = np.array(m, dtype=bool)
                s = slice(self.off[b], self.off[b + 1])
                elim[s, s] = m
        elif fd:
            for b in fd:
                b = int(b) % self.nb  # a negative block index counts from the end
                for i in range(self.off[b], self.off[b + 1]):
                    for j in range(self.off[b], self.off[b + 1]):
                        if self.classes[i] != self.classes[j]:
                            elim[i, j] = True
        self.elim = elim
        # precondition of the library: eliminated elements never couple equal levels
        for i in range(N):
            for j in range(N):
                if elim[i, j] and self.classes[i] == self.classes[j]:
                    raise ValueError("ill-posed config: eliminated element couples equal levels")

    # blocks ----------------------------------------------------------------------------------
    def blk(self, A, i, j):
        return A[self.off[i] : self.off[i + 1], self.off[j] : self.off[j + 1]]

    # running the real code ---------------------------------------------------------------
    def fd_kwarg(self):
        fd = self.cfg.get("fd")
        if fd is None:
            return {}
        if isinstance(fd, dict):
            return {"fully_diagonalize": {int(b): _mask_array(m) for b, m in fd.items()}}
        return {"fully_diagonalize": tuple(fd)}

    def run(self):
        """Execute the real block_diagonalize on this problem; returns (H_tilde, U, U_inv) BlockSeries."""
        from pymablock import block_diagonalize
        from pymablock.series import BlockSeries, zero

        if self.carrier == "B":
            return self._run_B()
        if self.carrier == "A":
            return self._run_A()
        if self.carrier == "C":
            return self._run_C()
        raise NotImplementedError(self.carrier)

    def sympy_inputs(self):
        """The same problem as sympy matrices (real symbols named like the z3 variables)."""
        import sympy

        from . import sympy_bridge as sb

        H0 = sympy.diag(*[sb.to_sympy(e) for e in self.E])
        ham = {self.zero_order: H0}
        for o, M in self.H.data.items():
            if o != self.zero_order:
                ham[o] = sb.matrix_to_sympy(M)
        return ham

    def _run_C(self):
        """sympy carrier: the library's own symbolic mode (sympy branches of masks / Sylvester solver)."""
        from pymablock import block_diagonalize

        from . import sympy_bridge as sb

        self._tr = sb.Translator()
        self._sym_pairs = []
        ham = self.sympy_inputs()
        if self.cfg.get("sympy_input") == "expression":
            # one sympy matrix depending on the perturbative symbols: the library Taylor-expands it (terms are monomials, so the expansion is exact)
            import sympy

            expr, lam = sympy_expression_input(ham, self.nparams)
            # the terms returned for such input carry the perturbative symbols; they are read at the point PERT_POINT and divided by the monomial
            self._pert_subs = dict(zip(lam, [sympy.Integer(x) for x in PERT_POINT]))
            # documented precondition of this input form: every perturbative symbol occurs in the matrix (else ValueError); a model in which
            # a whole listed term vanishes is therefore not an input of this form
            import z3

            for o, M in self.H.data.items():
                if o != self.zero_order:
                    symc.assume(z3.Or([c != 0 for x in np.asarray(M, dtype=object).ravel() for c in (lift(x).re, lift(x).im) if not isinstance(c, (int, Fraction))]))
            return block_diagonalize(expr, symbols=list(lam), subspace_indices=list(self.blockof), hermitian=self.hermitian, **self.fd_kwarg())
        return block_diagonalize(ham, subspace_indices=list(self.blockof), hermitian=self.hermitian, **self.fd_kwarg())

    def validate_translation(self, seed=0):
        """Spot-check the sympy->SymC translation of library outputs at a seeded random rational point."""
        from . import sympy_bridge as sb

        if not getattr(self, "_sym_pairs", None):
            return None
        pt = sb.random_point(seed)
        checked = 0
        for expr, x in self._sym_pairs[-6:]:
            r = sb.validate_pair(expr, x, pt)
            if r is False:
                return False
            if r:
                checked += 1
        return checked > 0

    def _make_H_series(self, h0_blocks):
        from pymablock.series import BlockSeries, zero

        terms = self.H.data
        zo = self.zero_order
        h0_is_zero = []
        for b in range(self.nb):
            lv = self.E[self.off[b] : self.off[b + 1]]
            h0_is_zero.append(all(e.const_value() == (0, 0) for e in lv) and self.nb > 1)

        self.h_calls = []

        def Heval(i, j, *order):
            self.h_calls.append((int(i), int(j), *map(int, order)))
            if tuple(order) == zo:
                if i != j or h0_is_zero[i]:
                    return zero  # an exactly vanishing block is the `zero` sentinel, as the public input formats produce it
                return h0_blocks[i]
            M = terms.get(tuple(order))
            if M is None:
                return zero
            return np.array(self.blk(M, i, j), dtype=object)

        return BlockSeries(eval=Heval, shape=(self.nb, self.nb), n_infinite=self.nparams, name="H")

    def _run_B(self):
        from pymablock import block_diagonalize
        from pymablock.series import zero

        E, off = self.E, self.off
        h0_blocks = [np.array(self.blk(self.H0, i, i), dtype=object) for i in range(self.nb)]
        H = self._make_H_series(h0_blocks)
        self.solver_calls = []

        def solve_sylvester(Y, index):
            if Y is zero:
                return zero
            i, j = index[:2]
            self.solver_calls.append(tuple(index))
            out = np.empty(Y.shape, dtype=object)
            for a in range(Y.shape[0]):
                for b in range(Y.shape[1]):
                    ea, eb = E[off[i] + a], E[off[j] + b]
                    out[a, b] = Y[a, b] / (ea - eb)
            return out

        return block_diagonalize(H, solve_sylvester=solve_sylvester, hermitian=self.hermitian)

    def _run_A(self):
        from pymablock import block_diagonalize

        assert self.E_num is not None, "carrier A needs a numeric spectrum"
        self.check_dyadic()
        cplx = any(b != 0 for _, b in self.E_num)
        ev = np.array([complex(float(a), float(b)) if cplx else float(a) for a, b in self.E_num])
        if self.cfg.get("int_h0"):
            assert not cplx and all(float(x).is_integer() for x in ev), "int_h0 needs an integer spectrum"
            ev = ev.astype(int)  # integer-typed H_0 (np.diag([0, 2, 5])) is legal input
        h0_blocks = [np.diag(ev[self.off[i] : self.off[i + 1]]) for i in range(self.nb)]
        H = self._make_H_series(h0_blocks)
        return block_diagonalize(H, hermitian=self.hermitian, **self.fd_kwarg())

    def check_dyadic(self):
        """Carrier A bound: every float the library computes from the spectrum must be exact."""
        for i in range(self.N):
            for j in range(self.N):
                if self.elim[i, j]:
                    gr = self.E_num[i][0] - self.E_num[j][0]
                    gi = self.E_num[i][1] - self.E_num[j][1]
                    n2 = gr * gr + gi * gi
                    for v in (gr / n2, -gi / n2):
                        if Fraction(float(v)) != v:
                            raise ValueError(f"carrier A: gap {gr}+{gi}i has an inexact float reciprocal")

    # output extraction -------------------------------------------------------------------
    def get(self, S, i, j, order):
        from pymablock.series import one, zero

        v = S[(i, j, *order)]
        if v is zero:
            return symc.zeros(self.sizes[i], self.sizes[j])
        if v is one:
            return symc.eye(self.sizes[i])
        try:
            import sympy

            if isinstance(v, sympy.MatrixBase):
                out = np.empty(v.shape, dtype=object)
                for a in range(v.shape[0]):
                    for b in range(v.shape[1]):
                        e = v[a, b]
                        if getattr(self, "_pert_subs", None):
                            e = e.subs(self._pert_subs) / sympy.Mul(*[sympy.Integer(x) ** k for x, k in zip(PERT_POINT, order)])
                        out[a, b] = self._tr(e)
                        if out[a, b].den or not out[a, b].const_value():
                            self._sym_pairs.append((e, out[a, b]))
                v = out
        except ImportError:
            pass
        v = np.asarray(v, dtype=object)
        assert v.shape == (self.sizes[i], self.sizes[j]), (v.shape, i, j)
        return symc.const(v) if v.dtype != object else np.vectorize(lift, otypes=[object])(v)

    def full(self, S, order):
        return np.block([[self.get(S, i, j, order) for j in range(self.nb)] for i in range(self.nb)])

    def dense(self, S):
        return Series((self.N, self.N), self.nparams, {o: self.full(S, o) for o in self.orders})

    # replay ------------------------------------------------------------------------------------
    def concretize(self, model, as_float=True):
        """Concrete numeric problem from a solver model: (E complex list, terms dict order->ndarray)."""
        def val(x):
            x = lift(x)
            return complex(float(_ev(x.re, model)), float(_ev(x.im, model))) / _den(x, model)

        E = [val(e) for e in self.E]
        terms = {}
        for o, M in self.H.data.items():
            if o == self.zero_order:
                continue
            terms[o] = np.array([[val(M[i, j]) for j in range(self.N)] for i in range(self.N)], dtype=complex)
        return E, terms


def _ev(term, model):
    """Evaluate a z3 polynomial term under a {name: Fraction} model."""
    import z3

    subs = [(symc.real(n), symc._rv(Fraction(v))) for n, v in model.items()]
    r = z3.simplify(z3.substitute(term, *subs))
    f = symc._ratval(r)
    if f is None:
        raise ValueError(f"term did not evaluate to a number: {r}")
    return f


def _den(x, model):
    d = Fraction(1)
    for k, e in x.den.items():
        d *= _ev(symc.CTX.atoms[k], model) ** e
    return float(d)


def evaluate(x, model):
    """SymC -> complex (exact Fractions internally) under a model."""
    x = lift(x)
    d = Fraction(1)
    for k, e in x.den.items():
        d *= _ev(symc.CTX.atoms[k], model) ** e
    return (_ev(x.re, model) / d, _ev(x.im, model) / d)


# ------------------------------------------------------------------------------------------------
# numeric replay through the public API (plain numpy; no vf arithmetic)


def numeric_series(sizes, E, terms, hermitian=True, fd=None, callback=False, int_h0=False):
    """The three BlockSeries returned by the real block_diagonalize for float/complex numpy inputs."""
    return _numeric(sizes, E, terms, hermitian, fd, 0, callback, series_only=True, int_h0=int_h0)


def numeric_run(sizes, E, terms, hermitian=True, fd=None, max_order=2, callback=False, int_h0=False):
    """Run the real block_diagonalize with float/complex numpy inputs; returns dense dicts of ndarray."""
    return _numeric(sizes, E, terms, hermitian, fd, max_order, callback, int_h0=int_h0)


def _numeric(sizes, E, terms, hermitian, fd, max_order, callback, series_only=False, int_h0=False):
    from pymablock import block_diagonalize
    from pymablock.series import BlockSeries, one, zero

    N = sum(sizes)
    nb = len(sizes)
    off = np.cumsum([0] + list(sizes))
    nparams = len(next(iter(terms)))
    zo = (0,) * nparams
    E = np.array(E, dtype=complex)
    if np.allclose(E.imag, 0):
        E = E.real
    if int_h0:
        E = E.astype(int)
    h0_blocks = [np.diag(E[off[i] : off[i + 1]]) for i in range(nb)]

    def Heval(i, j, *order):
        if tuple(order) == zo:
            if i != j or (nb > 1 and not np.any(h0_blocks[i])):
                return zero  # exactly vanishing block = `zero` sentinel, as in the symbolic run and the public formats
            return h0_blocks[i]
        M = terms.get(tuple(order))
        if M is None:
            return zero
        return np.array(M[off[i] : off[i + 1], off[j] : off[j + 1]])

    H = BlockSeries(eval=Heval, shape=(nb, nb), n_infinite=nparams, name="H")
    kw = {}
    if fd is not None:
        kw["fully_diagonalize"] = (
            {int(b): _mask_array(m) for b, m in fd.items()} if isinstance(fd, dict) else tuple(fd)
        )
    if callback:

        def solve_sylvester(Y, index):
            if Y is zero:
                return zero
            i, j = index[:2]
            ea = E[off[i] : off[i + 1]].reshape(-1, 1)
            eb = E[off[j] : off[j + 1]].reshape(1, -1)
            return Y / (ea - eb)

        kw["solve_sylvester"] = solve_sylvester
    Ht, U, Ui = block_diagonalize(H, hermitian=hermitian, **kw)
    if series_only:
        return Ht, U, Ui

    def full(S, order):
        rows = []
        for i in range(nb):
            row = []
            for j in range(nb):
                v = S[(i, j, *order)]
                if v is zero:
                    v = np.zeros((sizes[i], sizes[j]))
                elif v is one:
                    v = np.eye(sizes[i])
                row.append(np.asarray(v, dtype=complex))
            rows.append(row)
        return np.block(rows)

    orders = orders_upto(nparams, max_order)
    H_dense = {zo: np.diag(E).astype(complex), **{o: np.asarray(M, dtype=complex) for o, M in terms.items()}}
    return (
        {o: full(Ht, o) for o in orders},
        {o: full(U, o) for o in orders},
        {o: full(Ui, o) for o in orders},
        H_dense,
    )


def np_cauchy(factors, order):
    """numpy Cauchy product of dict-series (order -> ndarray) at a multi-order."""
    k = len(factors)
    acc = None
    for comp in compositions(tuple(order), k):
        if any(c not in f for c, f in zip(comp, factors)):
            continue
        term = factors[0][comp[0]]
        for f, c in zip(factors[1:], comp[1:]):
            term = term @ f[c]
        acc = term if acc is None else acc + term
    return acc


PERT_POINT = (2, 3, 5, 7)


def sympy_expression_input(ham, nparams):
    """One sympy matrix sum_o prod_k pert_k**o_k * H_o in real perturbative symbols pert_k (monomial terms: the library's Taylor expansion is exact)."""
    import sympy

    lam = [sympy.Symbol(f"pert_{k}", real=True) for k in range(nparams)]
    N = next(iter(ham.values())).shape[0]
    expr = sympy.zeros(N, N)
    for o, M in ham.items():
        expr += sympy.Mul(*[l**k for l, k in zip(lam, o)]) * M
    return expr, lam


def sympy_run(P, model):
    """Replay on the library's own symbolic mode with exact rational inputs (carrier C counterexamples)."""
    import sympy
    from pymablock import block_diagonalize
    from pymablock.series import one, zero

    def q(x):
        re, im = evaluate(x, model)
        return sympy.Rational(re.numerator, re.denominator) + sympy.I * sympy.Rational(im.numerator, im.denominator)

    N = P.N
    ham = {P.zero_order: sympy.diag(*[q(e) for e in P.E])}
    for o, M in P.H.data.items():
        if o != P.zero_order:
            ham[o] = sympy.Matrix(N, N, lambda i, j: q(M[i, j]))
    pert_subs = None
    if P.cfg.get("sympy_input") == "expression":
        expr, lam = sympy_expression_input(ham, P.nparams)
        pert_subs = dict(zip(lam, [sympy.Integer(x) for x in PERT_POINT]))
        Ht, U, Ui = block_diagonalize(expr, symbols=list(lam), subspace_indices=list(P.blockof), hermitian=P.hermitian, **P.fd_kwarg())
    else:
        Ht, U, Ui = block_diagonalize(ham, subspace_indices=list(P.blockof), hermitian=P.hermitian, **P.fd_kwarg())

    def full(S, order):
        rows = []
        for i in range(P.nb):
            row = []
            for j in range(P.nb):
                v = S[(i, j, *order)]
                if v is zero:
                    v = np.zeros((P.sizes[i], P.sizes[j]))
                elif v is one:
                    v = np.eye(P.sizes[i])
                else:
                    if pert_subs:
                        v = sympy.Matrix(v).subs(pert_subs) / sympy.Mul(*[sympy.Integer(x) ** k for x, k in zip(PERT_POINT, order)])
                    v = np.array(sympy.Matrix(v).evalf(30).tolist(), dtype=complex)
                row.append(np.asarray(v, dtype=complex))
            rows.append(row)
        return np.block(rows)

    H_dense = {o: np.array(sympy.Matrix(M).evalf(30).tolist(), dtype=complex) for o, M in ham.items()}
    return ({o: full(Ht, o) for o in P.orders}, {o: full(U, o) for o in P.orders}, {o: full(Ui, o) for o in P.orders}, H_dense)
