"""SymC: exact complex rational-function scalar whose payload is a pair of z3 Real terms.

value = (re + i*im) / prod(atom_k ** e_k)

* re, im are z3 Real *polynomial* terms over the input variables (never contain z3 division),
* denominators are a multiset of registered *atoms* (z3 terms assumed non-zero: energy gaps, |gap|^2, ...).

The class implements just the arithmetic pymablock uses on its values (+ - * / neg conjugate), so
that numpy object arrays of SymC run through the real, unmodified library code.  Every equality
question is finally a polynomial disequality decided by z3 (see solver.py).
"""
from __future__ import annotations

from fractions import Fraction

import numpy as np
import z3

R0 = z3.RealVal(0)
R1 = z3.RealVal(1)


class SymbolicDivisionByZero(ZeroDivisionError):
    pass


class _Ctx:
    def __init__(self):
        self.reset()

    def reset(self):
        self.atoms = {}  # id -> z3 term assumed != 0
        self.assumptions = []  # extra z3 constraints (e.g. occupation >= 0)
        self.vars = {}  # name -> z3 Real
        self.ops = 0


CTX = _Ctx()


def reset():
    CTX.reset()


def real(name: str):
    v = CTX.vars.get(name)
    if v is None:
        v = CTX.vars[name] = z3.Real(name)
    return v


def assume(constraint):
    CTX.assumptions.append(constraint)


def _ratval(t):
    """Fraction if t is a rational numeral else None."""
    if z3.is_rational_value(t):
        return Fraction(t.numerator_as_long(), t.denominator_as_long())
    return None


def _rv(fr: Fraction):
    if fr.denominator == 1:
        return z3.RealVal(fr.numerator)
    return z3.RealVal(f"{fr.numerator}/{fr.denominator}")


def _mul(a, b):
    fa, fb = _ratval(a), _ratval(b)
    if fa is not None:
        if fa == 0:
            return R0
        if fa == 1:
            return b
        if fb is not None:
            return _rv(fa * fb)
    if fb is not None:
        if fb == 0:
            return R0
        if fb == 1:
            return a
    return a * b


def _add(a, b):
    fa, fb = _ratval(a), _ratval(b)
    if fa is not None:
        if fa == 0:
            return b
        if fb is not None:
            return _rv(fa + fb)
    if fb is not None and fb == 0:
        return a
    return a + b


def _sub(a, b):
    fa, fb = _ratval(a), _ratval(b)
    if fb is not None:
        if fb == 0:
            return a
        if fa is not None:
            return _rv(fa - fb)
    if fa is not None and fa == 0:
        return -b
    return a - b


def _neg(a):
    fa = _ratval(a)
    if fa is not None:
        return _rv(-fa)
    return -a


def atom(term):
    """Register `term` (assumed != 0) as denominator atom, canonical up to sign. Returns (key, sign)."""
    t1 = z3.simplify(term, som=True)
    f = _ratval(t1)
    if f is not None:
        if f == 0:
            raise SymbolicDivisionByZero("division by identically zero term")
        raise AssertionError("constant atoms are handled by the caller")
    t2 = z3.simplify(-term, som=True)
    if t1.sexpr() <= t2.sexpr():
        t, sgn = t1, 1
    else:
        t, sgn = t2, -1
    k = t.get_id()
    CTX.atoms.setdefault(k, t)
    return k, sgn


def _num(x):
    if isinstance(x, (bool, np.bool_)):
        x = int(x)
    if isinstance(x, (int, np.integer)):
        return z3.RealVal(int(x)), R0
    if isinstance(x, Fraction):
        return _rv(x), R0
    if isinstance(x, (float, np.floating)):
        x = float(x)
        if x != x or x in (float("inf"), float("-inf")):
            raise SymbolicDivisionByZero(f"non-finite float {x} entered symbolic arithmetic")
        return _rv(Fraction(x)), R0
    if isinstance(x, (complex, np.complexfloating)):
        x = complex(x)
        for part in (x.real, x.imag):
            if part != part or part in (float("inf"), float("-inf")):
                raise SymbolicDivisionByZero(f"non-finite complex {x} entered symbolic arithmetic")
        return _rv(Fraction(x.real)), _rv(Fraction(x.imag))
    return None


def lift(x):
    if isinstance(x, SymC):
        return x
    q = _num(x)
    if q is None:
        try:
            import sympy

            if isinstance(x, sympy.Basic) and x.is_number:
                re, im = x.as_real_imag()
                if re.is_Rational and im.is_Rational:
                    return SymC(_rv(Fraction(int(re.p), int(re.q))), _rv(Fraction(int(im.p), int(im.q))))
        except Exception:
            pass
        return None
    return SymC(q[0], q[1])


class SymC:
    __slots__ = ("re", "im", "den")

    def __init__(self, re, im=R0, den=None):
        self.re, self.im, self.den = re, im, (den or {})

    # -- helpers -------------------------------------------------------------------
    def _scaled(self, target):
        re, im = self.re, self.im
        for k, v in target.items():
            for _ in range(v - self.den.get(k, 0)):
                a = CTX.atoms[k]
                re, im = _mul(re, a), _mul(im, a)
        return re, im

    def const_value(self):
        """complex Fraction pair if this is a literal constant, else None."""
        if self.den:
            return None
        a, b = _ratval(self.re), _ratval(self.im)
        if a is None or b is None:
            return None
        return a, b

    # -- arithmetic ----------------------------------------------------------------
    def __add__(self, o, sign=1):
        o = lift(o)
        if o is None:
            return NotImplemented
        if not self.den and not o.den:
            target = {}
            a, b, c, d = self.re, self.im, o.re, o.im
        else:
            target = dict(self.den)
            for k, v in o.den.items():
                if target.get(k, 0) < v:
                    target[k] = v
            a, b = self._scaled(target)
            c, d = o._scaled(target)
        if sign == 1:
            return SymC(_add(a, c), _add(b, d), target)
        return SymC(_sub(a, c), _sub(b, d), target)

    __radd__ = __add__

    def __sub__(self, o):
        return self.__add__(o, -1)

    def __rsub__(self, o):
        return (-self).__add__(o)

    def __neg__(self):
        return SymC(_neg(self.re), _neg(self.im), self.den)

    def __pos__(self):
        return self

    def __mul__(self, o):
        o = lift(o)
        if o is None:
            return NotImplemented
        a, b, c, d = self.re, self.im, o.re, o.im
        if o.den:
            den = dict(self.den)
            for k, v in o.den.items():
                den[k] = den.get(k, 0) + v
        else:
            den = self.den
        re = _sub(_mul(a, c), _mul(b, d))
        im = _add(_mul(a, d), _mul(b, c))
        if _ratval(re) == 0 and _ratval(im) == 0:
            den = {}
        return SymC(re, im, den)

    __rmul__ = __mul__

    def inverse(self):
        c, d = self.re, self.im
        fc, fd = _ratval(c), _ratval(d)
        if fc is None:
            c = z3.simplify(c, som=True)
            fc = _ratval(c)
        if fd is None:
            d = z3.simplify(d, som=True)
            fd = _ratval(d)
        if fc is not None and fd is not None:
            n2 = fc * fc + fd * fd
            if n2 == 0:
                raise SymbolicDivisionByZero("division by zero constant")
            num = SymC(_rv(fc / n2), _rv(-fd / n2))
        elif fd is not None and fd == 0:
            k, sgn = atom(c)
            num = SymC(z3.RealVal(sgn), R0, {k: 1})
        else:
            k, sgn = atom(_add(_mul(c, c), _mul(d, d)))
            num = SymC(_mul(c, z3.RealVal(sgn)), _mul(_neg(d), z3.RealVal(sgn)), {k: 1})
        for kk, v in self.den.items():
            a = SymC(CTX.atoms[kk])
            for _ in range(v):
                num = num * a
        return num

    def __truediv__(self, o):
        o = lift(o)
        if o is None:
            return NotImplemented
        return self * o.inverse()

    def __rtruediv__(self, o):
        o = lift(o)
        if o is None:
            return NotImplemented
        return o * self.inverse()

    def __pow__(self, k):
        if not isinstance(k, (int, np.integer)):
            return NotImplemented
        k = int(k)
        base = self if k >= 0 else self.inverse()
        out = SymC(R1)
        for _ in range(abs(k)):
            out = out * base
        return out

    def conjugate(self):
        return SymC(self.re, _neg(self.im), self.den)

    conj = conjugate

    def adjoint(self):
        return self.conjugate()

    @property
    def real(self):
        return SymC(self.re, R0, self.den)

    @property
    def imag(self):
        return SymC(self.im, R0, self.den)

    # -- decisions -----------------------------------------------------------------
    def nonzero_clauses(self):
        out = []
        for t in (self.re, self.im):
            f = _ratval(t)
            if f is None:
                out.append(t != 0)
            elif f != 0:
                out.append(z3.BoolVal(True))
        return out

    def __abs__(self):
        # only meaningful in comparisons with a tolerance (numpy's allclose / isclose on object arrays)
        return _AbsSym(self)

    def __bool__(self):
        raise TypeError("truth value of a symbolic scalar is undefined (library branched on a symbolic value)")

    def __eq__(self, o):  # identity only; never silently decide symbolic equality
        return self is o

    def __hash__(self):
        return id(self)

    def __repr__(self):
        return f"SymC({z3.simplify(self.re)}, {z3.simplify(self.im)} / {[(str(CTX.atoms[k]), v) for k, v in self.den.items()]})"


class _AbsSym:
    """|x| of a symbolic scalar: comparable with a tolerance under generic-point semantics (|x| <= tol  iff  x == 0 identically)."""

    __slots__ = ("x",)

    def __init__(self, x):
        self.x = x

    def __le__(self, other):
        return identically_zero(self.x)

    __lt__ = __le__

    def __gt__(self, other):
        return not identically_zero(self.x)

    __ge__ = __gt__

    def __mul__(self, other):  # rtol * abs(y)
        return self

    __rmul__ = __mul__


# -- constructors -------------------------------------------------------------------


def C(name, complex_=True):
    return SymC(real(name + "_r"), real(name + "_i") if complex_ else R0)


def hermitian(name, n):
    A = np.empty((n, n), dtype=object)
    for i in range(n):
        A[i, i] = C(f"{name}{i}{i}", False)
        for j in range(i + 1, n):
            A[i, j] = C(f"{name}{i}{j}")
            A[j, i] = A[i, j].conjugate()
    return A


def general(name, n, m=None, complex_=True):
    m = n if m is None else m
    A = np.empty((n, m), dtype=object)
    for i in range(n):
        for j in range(m):
            A[i, j] = C(f"{name}{i}{j}", complex_)
    return A


def const(A):
    A = np.asarray(A)
    out = np.empty(A.shape, dtype=object)
    for idx in np.ndindex(A.shape):
        v = A[idx]
        out[idx] = lift(v.item() if hasattr(v, "item") else v)
        if out[idx] is None:
            raise TypeError(f"cannot lift {v!r}")
    return out


def zeros(n, m):
    return const(np.zeros((n, m), dtype=int))


def eye(n):
    return const(np.eye(n, dtype=int))


def dagger(A):
    A = np.asarray(A, dtype=object)
    out = np.empty(A.shape[::-1], dtype=object)
    for idx in np.ndindex(A.shape):
        out[idx[::-1]] = lift(A[idx]).conjugate()
    return out


def mm(A, B):
    """Own dense matrix product (oracle side; plain loops, no numpy matmul)."""
    A = np.asarray(A, dtype=object)
    B = np.asarray(B, dtype=object)
    n, k = A.shape
    k2, m = B.shape
    assert k == k2, (A.shape, B.shape)
    out = np.empty((n, m), dtype=object)
    for i in range(n):
        for j in range(m):
            acc = SymC(R0)
            for l in range(k):
                acc = acc + lift(A[i, l]) * lift(B[l, j])
            out[i, j] = acc
    return out


def differs_clauses(A, B=None):
    """List of z3 clauses, one per non-trivially-zero real component of A-B."""
    D = A if B is None else (np.asarray(A, dtype=object) - np.asarray(B, dtype=object))
    cl = []
    for d in np.asarray(D, dtype=object).flat:
        d = lift(d)
        if d is None:
            raise TypeError("non-liftable entry in differs()")
        cl += d.nonzero_clauses()
    return cl


def identically_zero(x, timeout_ms=20000):
    """Generic-point semantics for the library's `allclose(x, 0)`: is x the zero polynomial?"""
    x = lift(x)
    cl = x.nonzero_clauses()
    if not cl:
        return True
    s = z3.Solver()
    s.set("timeout", timeout_ms)
    for t in CTX.atoms.values():
        s.add(t != 0)
    s.add(z3.Or(cl))
    r = s.check()
    if r == z3.unsat:
        return True
    if r == z3.sat:
        return False
    raise RuntimeError("identically_zero: solver returned unknown")


class SymArray(np.ndarray):
    """Object ndarray of SymC which models the three numpy predicates the library applies to values."""

    __array_priority__ = 100

    def __new__(cls, a):
        return np.asarray(a, dtype=object).view(cls)

    def __array_function__(self, func, types, args, kwargs):
        if func is np.allclose or func is np.isclose:
            a, b = args[0], args[1]
            if np.isscalar(b) and b == 0:
                flags = [identically_zero(x) for x in np.asarray(a, dtype=object).flat]
                if func is np.allclose:
                    return all(flags)
                return np.array(flags, dtype=bool).reshape(np.shape(a))
            raise NotImplementedError("allclose/isclose model: only comparison with 0 is modelled")
        if func is np.isfinite:
            return np.ones(np.shape(args[0]), dtype=bool)
        return super().__array_function__(func, types, args, kwargs)
