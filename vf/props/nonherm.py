"""C05: non-Hermitian mode (U_inv U = 1, U_inv H U = H_tilde / 0, gauge, agreement with the Hermitian mode)."""
from __future__ import annotations

import numpy as np

from .. import bd, symc
from ..engine import Rec
from .herm import TOL, LibraryRaised, _numeric, _scale, _setup, _sig, library_exception_info


def c05(cfg, prop="C05"):
    try:
        rec, P, Ht, U, Ui, dHt, dU, dUi = _setup(prop, cfg)
    except LibraryRaised as lr:
        return lr.rec
    N = P.N
    elim, kept = P.elim, ~P.elim
    I, Z = symc.eye(N), symc.zeros(N, N)
    cb = P.carrier == "B"
    mixed = _kept_mixes_levels(P)

    def sig(kind):
        return _sig(cfg, kind) + (":kept-couples-distinct-levels" if mixed else ":kept-degenerate")

    def rp(kind, order):
        def replay(model):
            nHt, nU, nUi, nH = _numeric(P, model, callback=cb)
            eyeN = np.eye(N) if sum(order) == 0 else np.zeros((N, N))
            if kind == "UiU":
                A, B = bd.np_cauchy([nUi, nU], order), eyeN
            elif kind == "UUi":
                A, B = bd.np_cauchy([nU, nUi], order), eyeN
            elif kind == "kept":
                T = bd.np_cauchy([nUi, nH, nU], order)
                A, B = T[kept], nHt[order][kept]
            elif kind == "elim":
                T = bd.np_cauchy([nUi, nH, nU], order)
                A, B = T[elim], np.zeros(int(elim.sum()))
            elif kind == "gauge":
                A, B = (nU[order] - nUi[order])[kept], np.zeros(int(kept.sum()))
            else:
                raise KeyError(kind)
            A = np.zeros_like(B) if A is None else A
            err = float(np.max(np.abs(A - B))) if np.size(A) else 0.0
            sc = _scale(np.asarray(A), np.asarray(B))
            return err > TOL * sc, {"kind": kind, "order": list(order), "max_abs_error": err, "scale": sc}

        return replay

    def rp_mod(kind, order):
        def replay(model):
            nHt, nU, nUi, nH = _numeric(P, model, callback=cb)
            E0 = nH[P.zero_order]
            nUs = {}
            for oo, M in nU.items():
                if sum(oo) == 0:
                    continue
                Mk = M.copy()
                Mk[elim] = 0
                nUs[oo] = E0 @ Mk - Mk @ E0
            T = bd.np_cauchy([nUi, nH, nU], order)
            T = np.zeros((N, N), dtype=complex) if T is None else T
            corr = bd.np_cauchy([nUi, nUs], order)
            if corr is not None:
                T = T - corr
            if kind.startswith("kept"):
                A, B = T[kept], nHt[order][kept]
            else:
                A, B = T[elim], np.zeros(int(elim.sum()))
            err = float(np.max(np.abs(A - B))) if np.size(A) else 0.0
            sc = _scale(np.asarray(A), np.asarray(B))
            return err > TOL * sc, {"kind": kind, "order": list(order), "max_abs_error": err, "scale": sc}

        return replay

    bad = set()
    first = next((o for o in P.orders if sum(o) == 1), None)
    for o in P.orders:
        ref = I if sum(o) == 0 else Z
        T = None
        items = [
            ("UiU", lambda: (bd.cauchy([dUi, dU], o), ref)),
            ("UUi", lambda: (bd.cauchy([dU, dUi], o), ref)),
            ("kept", lambda: (T[kept], dHt.get(o)[kept])),
            ("elim", lambda: (T[elim], None)),
            ("gauge", lambda: ((dU.get(o) - dUi.get(o))[kept], None)),
        ]
        for kind, f in items:
            if kind in bad:
                continue
            if kind in ("kept", "elim") and T is None:
                T = bd.cauchy([dUi, P.H, dU], o)
            if kind == "elim" and not elim.any():
                continue
            if kind == "gauge" and sum(o) == 0:
                continue
            A, B = f()
            v = rec.oblige(f"{kind} order={o}", A, B, sig=sig(kind) + f":order={sum(o)}", replay=rp(kind, o))
            if v == "sat":
                bad.add(kind)
            if v != "structural" and sum(o) >= 1:
                rec.nontrivial = True
        if o == first and elim.any():
            rec.guard_twin("twin_U1_nonzero", dU.get(o), Z)
    if mixed:
        # Configurations in which the KNOWN defect (known_findings.json: X_S omits [H_0, U'_S]) masks the plain identity.
        # What the shipped recurrences then compute exactly is  U_inv H U = H_tilde + U_inv [H_0, (U - 1)_S]  (derivation in
        # DESIGN.md section 5); this defect-aware identity must still hold, so that any OTHER deviation in these
        # configurations is reported as a violation and not hidden behind the known finding.
        Us = bd.Series((N, N), P.nparams, {})
        for o in P.orders:
            if sum(o) == 0:
                continue
            M = dU.get(o).copy()
            M[elim] = symc.lift(0)
            Us.data[o] = symc.mm(P.H0, M) - symc.mm(M, P.H0)
        for o in P.orders:
            T = bd.cauchy([dUi, P.H, dU], o) - bd.cauchy([dUi, Us], o)
            for kind, A, B in (("kept-modulo-known-defect", T[kept], dHt.get(o)[kept]), ("elim-modulo-known-defect", T[elim], None)):
                if kind in bad or (kind.startswith("elim") and not elim.any()):
                    continue
                v = rec.oblige(f"{kind} order={o}", A, B, sig=_sig(cfg, kind) + f":order={sum(o)}", replay=rp_mod(kind, o))
                if v == "sat":
                    bad.add(kind)
    return rec


def _kept_mixes_levels(P):
    """Does some kept off-diagonal element connect two different unperturbed levels?"""
    for i in range(P.N):
        for j in range(P.N):
            if i != j and not P.elim[i, j] and P.classes[i] != P.classes[j]:
                return True
    return False


def c05_vs_hermitian(cfg, prop="C05"):
    """On Hermitian symbolic input the non-Hermitian outputs coincide with the Hermitian-mode outputs."""
    rec = Rec(prop, cfg)
    cfgH = dict(cfg, hermitian=True)
    cfgN = dict(cfg, hermitian=False, hermitian_input=True, complex_spectrum=False)
    PH = bd.Problem(cfgH)
    outH = [PH.dense(S) for S in PH.run()]
    PN = bd.Problem(cfgN)  # same variable names -> same symbolic input
    try:
        outN = [PN.dense(S) for S in PN.run()]
    except Exception as e:
        is_lib, where = library_exception_info(e)
        if not is_lib or isinstance(e, symc.SymbolicDivisionByZero):
            raise
        from .. import sympy_bridge as sb

        reproduced = False
        try:
            _numeric(PN, sb.random_point(0), callback=(PN.carrier == "B"))
        except Exception as e2:
            reproduced = type(e2) is type(e)
        rec.direct_violation(f"library raised {type(e).__name__} on a well-posed input", _sig(cfg, "raised-" + type(e).__name__),
                             {"exception": f"{type(e).__name__}: {e}", "where": where}, reproduced=reproduced)
        return rec
    rec.sample = {"config": cfg, "n_symbolic_reals": len(symc.CTX.vars)}
    from .. import solver

    rec.guard("assumptions_sat", solver.assumptions_sat() == "sat")
    mixed = _kept_mixes_levels(PN)
    names = ["Ht", "U", "Uinv"]

    def rp(which, order):
        def replay(model):
            E, terms = PN.concretize(model)
            a = bd.numeric_run(PN.sizes, E, terms, hermitian=False, fd=cfg.get("fd"), max_order=PN.max_order, callback=PN.carrier == "B")
            b = bd.numeric_run(PN.sizes, E, terms, hermitian=True, fd=cfg.get("fd"), max_order=PN.max_order, callback=PN.carrier == "B")
            A, B = a[which][order], b[which][order]
            err = float(np.max(np.abs(A - B)))
            return err > TOL * _scale(A, B), {"series": names[which], "order": list(order), "max_abs_error": err}

        return replay

    bad = set()
    for o in PN.orders:
        for w in range(3):
            if w in bad:
                continue
            v = rec.oblige(
                f"nonherm=={'herm'} {names[w]} order={o}", outN[w].get(o), outH[w].get(o),
                sig=_sig(cfg, "vsherm-" + names[w]) + (":kept-couples-distinct-levels" if mixed else ":kept-degenerate") + f":order={sum(o)}",
                replay=rp(w, o),
            )
            if v == "sat":
                bad.add(w)
            if v != "structural" and sum(o) >= 1:
                rec.nontrivial = True
    return rec
