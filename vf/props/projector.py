"""C17: ComplementProjector == dense 1 - R L^dagger under every operator operation (symbolic R, L, operands)."""
from __future__ import annotations

import itertools

import numpy as np

from .. import bd, symc
from ..engine import Rec
from ..symc import SymC

TOL = 1e-9


def _dense_ops(D):
    return {
        "id": lambda M: M,
        "T": lambda M: M.T.copy(),
        "H": lambda M: symc.dagger(M),
        "C": lambda M: np.vectorize(lambda x: symc.lift(x).conjugate(), otypes=[object])(M),
    }


def _apply_chain_op(P, chain):
    for c in chain:
        if c == "T":
            P = P.T
        elif c == "H":
            P = P.H
        elif c == "C":
            P = P.conjugate()
    return P


def _apply_chain_dense(D, chain):
    ops = _dense_ops(D)
    for c in chain:
        D = ops[c](D)
    return D


def _biorthogonal(n, k, real):
    """Symbolic R (n x k) and L with L^dagger R = 1 by construction: R = [1; A], L = [1 - B^dagger A ... ]: use
    R = [I_k ; A], L = [I_k - (A^dagger B)^dagger ... ]  -> simpler: L = [I_k - B^dagger A)^dagger? we use the explicit solution
    L^dagger = [I_k - C A, C] with free C (k x (n-k)):  L^dagger R = I_k - C A + C A = I_k."""
    A = symc.general("ra_", n - k, k, complex_=not real)
    C = symc.general("lc_", k, n - k, complex_=not real)
    R = np.vstack([symc.eye(k), A])
    Ld = np.hstack([symc.eye(k) - symc.mm(C, A), C])
    L = symc.dagger(Ld)
    return R, L


def _fixed_real(n, k):
    M = np.zeros((n, k))
    for a in range(n):
        for b in range(k):
            M[a, b] = [1.0, 0.5, -0.25, 2.0, -1.0, 0.75][(a * 3 + b * 2) % 6]
    return M


def c17(cfg):
    from pymablock.linalg import ComplementProjector

    rec = Rec("C17", cfg)
    n, k = cfg["n"], cfg["k"]
    real = cfg.get("real", False)
    mode = cfg["mode"]  # "hermitian" (L=R, symbolic, not nec. orthonormal) | "general" (independent L) | "biorthogonal" (L^dagger R = 1)
    fixed = _fixed_real(n, k)
    if mode == "hermitian":
        R = symc.general("r_", n, k, complex_=not real)
        L = R
    elif mode == "real_R":  # numeric real R (float dtype), symbolic complex L: the operator dtype is decided by both
        R = symc.const(fixed)
        L = symc.general("l_", n, k, complex_=not real)
    elif mode == "real_L":
        R = symc.general("r_", n, k, complex_=not real)
        L = symc.const(fixed)
    elif mode == "general":
        R = symc.general("r_", n, k, complex_=not real)
        L = symc.general("l_", n, k, complex_=not real)
    else:
        R, L = _biorthogonal(n, k, real)
    Rlib = fixed.copy() if mode == "real_R" else np.array(R, dtype=object)
    Llib = Rlib if mode == "hermitian" else (fixed.copy() if mode == "real_L" else np.array(L, dtype=object))
    sig = f"projector:mode={mode}:real={real}"
    rec.sample = {"config": cfg}
    try:
        P = ComplementProjector(Rlib, None if mode == "hermitian" and cfg.get("left_none", True) else Llib)
    except Exception as e:
        from .herm import library_exception_info

        is_lib, where = library_exception_info(e)
        rec.direct_violation("ComplementProjector cannot be constructed", sig + f":init-{type(e).__name__}", {"exception": f"{type(e).__name__}: {e}"[:300], "where": where})
        return rec
    D = symc.eye(n) - symc.mm(R, symc.dagger(L))
    v = symc.general("v_", n, 1, complex_=not real)[:, 0]
    M = symc.general("m_", n, 2, complex_=not real)
    Mr = symc.general("w_", 2, n, complex_=not real)

    executed = []  # names of the operations already performed on this projector object, in order (cached derived operators make results history dependent)

    def replay_for(name, fn_lib, fn_ref):
        history = tuple(executed)

        def replay(model):
            return _numeric_replay(cfg, model, name, history)

        return replay

    pending = []

    def ob(name, lib_fn, ref):
        pending.append((name, lib_fn, ref))

    def run_ob(name, lib_fn, ref):
        replay = replay_for(name, None, None)
        executed.append(name)
        try:
            lib = lib_fn()
        except Exception as e:
            from .herm import library_exception_info

            is_lib, where = library_exception_info(e)
            tb_where = where
            rec.direct_violation(f"{name} raised", sig + f":{name.split()[0]}-raised-{type(e).__name__}", {"exception": f"{type(e).__name__}: {e}"[:300], "where": tb_where})
            return
        lib = np.asarray(lib, dtype=object)
        ref = np.asarray(ref, dtype=object)
        if lib.shape != ref.shape:
            rec.direct_violation(f"{name}: shape {lib.shape} != {ref.shape}", sig + f":{name.split()[0]}-shape", {"lib": list(lib.shape), "ref": list(ref.shape)})
            return
        x = rec.oblige(name, lib, ref, sig=sig + ":" + name.split()[0], replay=replay)
        if x != "structural":
            rec.nontrivial = True

    def mv(A, x):
        x = np.asarray(x, dtype=object)
        if x.ndim == 1:
            return symc.mm(A, x.reshape(-1, 1))[:, 0]
        return symc.mm(A, x)

    # unit level: the four primitive methods and the cached derived operators
    ob("_apply P v", lambda: P._apply(v), mv(D, v))
    ob("_apply P M", lambda: P._apply(M), mv(D, M))
    ob("_apply_left adjoint action on v", lambda: P._apply_left(v), mv(symc.dagger(D), v))
    ob("_apply_left adjoint action on M", lambda: P._apply_left(M), mv(symc.dagger(D), M))
    ob("matvec P@v", lambda: P @ v, mv(D, v))
    ob("matmat P@M", lambda: P @ M, mv(D, M))
    ob("rmatvec P.rmatvec(v)", lambda: P.rmatvec(v), mv(symc.dagger(D), v))
    ob("rmatmat P.rmatmat(M)", lambda: P.rmatmat(M), mv(symc.dagger(D), M))
    ob("left v@P", lambda: v @ P, mv(D.T, v))
    ob("left W@P", lambda: Mr @ P, symc.mm(Mr, D))
    # other operand shapes / entry points of the operator interface
    col = np.asarray(v, dtype=object).reshape(-1, 1)
    ob("shape P.matvec(column)", lambda: P.matvec(col), mv(D, col))
    ob("shape P.rmatvec(column)", lambda: P.rmatvec(col), mv(symc.dagger(D), col))
    ob("shape P.dot(M)", lambda: P.dot(M), mv(D, M))
    ob("shape P(v)", lambda: P(v), mv(D, v))
    ob("shape P.H.matmat(M)", lambda: P.H.matmat(M), mv(symc.dagger(D), M))
    ob("shape P.T.rmatmat(M)", lambda: P.T.rmatmat(M), mv(_conj_dense(D), M))
    # chains of .T / .H / conjugate()
    chains = [c for L_ in range(1, cfg.get("chain", 2) + 1) for c in itertools.product("THC", repeat=L_)]
    for ch in chains:
        Dc = _apply_chain_dense(D, ch)
        nm = "".join(ch)
        ob(f"chain{nm} @v", lambda ch=ch: _apply_chain_op(P, ch) @ v, mv(Dc, v))
        ob(f"chain{nm} left", lambda ch=ch: Mr @ _apply_chain_op(P, ch), symc.mm(Mr, Dc))
        ob(f"chain{nm} rmatvec", lambda ch=ch: _apply_chain_op(P, ch).rmatvec(v), mv(symc.dagger(Dc), v))
    # composites through SciPy's operator algebra: P A P with a dense symbolic A
    from scipy.sparse.linalg import aslinearoperator

    A = symc.general("a_", n, n, complex_=not real)
    Aop = aslinearoperator(np.array(A, dtype=object))
    DAD = symc.mm(symc.mm(D, A), D)
    ob("composite PAP@v", lambda: (P @ Aop @ P) @ v, mv(DAD, v))
    ob("composite PAP@M", lambda: (P @ Aop @ P) @ M, mv(DAD, M))
    ob("composite W@PAP", lambda: Mr @ (P @ Aop @ P), symc.mm(Mr, DAD))
    ob("composite v@PAP", lambda: v @ (P @ Aop @ P), mv(DAD.T, v))
    ob("composite PAP.H@v", lambda: (P @ Aop @ P).H @ v, mv(symc.dagger(DAD), v))
    ob("composite PAP.T@v", lambda: (P @ Aop @ P).T @ v, mv(DAD.T, v))
    ob("composite PAP.rmatvec", lambda: (P @ Aop @ P).rmatvec(v), mv(symc.dagger(DAD), v))
    ob("composite (P+P)@v", lambda: (P + P) @ v, mv(D + D, v))
    ob("composite (2P).H@v", lambda: (2 * P).H @ v, mv(symc.dagger(D) * 2, v))
    # idempotence when L^dagger R = 1 (hypothesis removed by parametrisation)
    if mode == "biorthogonal":
        ob("idempotent P@(P@v)", lambda: P @ (P @ v), mv(D, v))
        ob("idempotent v@P@P", lambda: (v @ P) @ P, mv(D.T, v))
    # order of the operations on the one projector object: as listed (primitive applications first), derived operators first, or reversed
    order = cfg.get("order", "listed")
    if order == "derived_first":
        pending.sort(key=lambda t: 0 if t[0].split()[0].startswith(("chain", "composite")) or ".H" in t[0] or ".T" in t[0] else 1)
    elif order == "reversed":
        pending.reverse()
    for t in pending:
        run_ob(*t)
    # shape / dtype reported consistently
    ok = tuple(P.shape) == (n, n) and tuple(P.H.shape) == (n, n) and tuple(P.T.shape) == (n, n) and P.dtype == np.dtype(object)
    if ok:
        rec.discharged("shape/dtype consistent for P, P.H, P.T", "confirmed")
    else:
        rec.direct_violation("shape/dtype inconsistent", sig + ":shape-dtype", {"shape": list(P.shape), "dtype": str(P.dtype)})
    from .. import solver

    rec.guard("assumptions_sat", solver.assumptions_sat() == "sat")
    rec.guard_twin("twin_projector_not_identity", mv(D, v), v)
    return rec


def _conj_dense(D):
    return symc.dagger(D).T


def _numeric_replay(cfg, model, name, history=()):
    """Concrete complex numpy replay of one named obligation at the model point (real public operator API), after the same operations
    on the same projector object, in the same order, as in the symbolic run (`history`)."""
    from pymablock.linalg import ComplementProjector
    from scipy.sparse.linalg import aslinearoperator

    n, k = cfg["n"], cfg["k"]

    def val(prefix, r, c):
        out = np.zeros((r, c), dtype=complex)
        for i in range(r):
            for j in range(c):
                out[i, j] = float(model.get(f"{prefix}{i}{j}_r", 0)) + 1j * float(model.get(f"{prefix}{i}{j}_i", 0))
        return out

    mode = cfg["mode"]
    if mode == "biorthogonal":
        A_ = val("ra_", n - k, k)
        C_ = val("lc_", k, n - k)
        R = np.vstack([np.eye(k), A_])
        L = np.hstack([np.eye(k) - C_ @ A_, C_]).conj().T
    else:
        R = _fixed_real(n, k) if mode == "real_R" else val("r_", n, k)
        L = R if mode == "hermitian" else (_fixed_real(n, k) if mode == "real_L" else val("l_", n, k))
    P = ComplementProjector(R, None if mode == "hermitian" else L)
    D = np.eye(n) - R @ L.conj().T
    v = val("v_", n, 1)[:, 0]
    M = val("m_", n, 2)
    W = val("w_", 2, n)
    A = val("a_", n, n)
    Aop = aslinearoperator(A)
    DAD = D @ A @ D
    pairs = {
        ("_apply", "P v"): (lambda: P._apply(v), D @ v), ("_apply", "P M"): (lambda: P._apply(M), D @ M),
        ("_apply_left", "adjoint action on v"): (lambda: P._apply_left(v), D.conj().T @ v), ("_apply_left", "adjoint action on M"): (lambda: P._apply_left(M), D.conj().T @ M),
        ("matvec", "P@v"): (lambda: P @ v, D @ v), ("matmat", "P@M"): (lambda: P @ M, D @ M),
        ("rmatvec", "P.rmatvec(v)"): (lambda: P.rmatvec(v), D.conj().T @ v), ("rmatmat", "P.rmatmat(M)"): (lambda: P.rmatmat(M), D.conj().T @ M),
        ("left", "v@P"): (lambda: v @ P, v @ D), ("left", "W@P"): (lambda: W @ P, W @ D),
        ("shape", "P.matvec(column)"): (lambda: P.matvec(v.reshape(-1, 1)), (D @ v).reshape(-1, 1)), ("shape", "P.rmatvec(column)"): (lambda: P.rmatvec(v.reshape(-1, 1)), (D.conj().T @ v).reshape(-1, 1)),
        ("shape", "P.dot(M)"): (lambda: P.dot(M), D @ M), ("shape", "P(v)"): (lambda: P(v), D @ v),
        ("shape", "P.H.matmat(M)"): (lambda: P.H.matmat(M), D.conj().T @ M), ("shape", "P.T.rmatmat(M)"): (lambda: P.T.rmatmat(M), D.conj() @ M),
        ("composite", "PAP@v"): (lambda: (P @ Aop @ P) @ v, DAD @ v), ("composite", "PAP@M"): (lambda: (P @ Aop @ P) @ M, DAD @ M), ("composite", "W@PAP"): (lambda: W @ (P @ Aop @ P), W @ DAD),
        ("composite", "v@PAP"): (lambda: v @ (P @ Aop @ P), v @ DAD), ("composite", "PAP.H@v"): (lambda: (P @ Aop @ P).H @ v, DAD.conj().T @ v), ("composite", "PAP.T@v"): (lambda: (P @ Aop @ P).T @ v, DAD.T @ v),
        ("composite", "PAP.rmatvec"): (lambda: (P @ Aop @ P).rmatvec(v), DAD.conj().T @ v), ("composite", "(P+P)@v"): (lambda: (P + P) @ v, 2 * D @ v), ("composite", "(2P).H@v"): (lambda: (2 * P).H @ v, 2 * D.conj().T @ v),
        ("idempotent", "P@(P@v)"): (lambda: P @ (P @ v), D @ v), ("idempotent", "v@P@P"): (lambda: (v @ P) @ P, v @ D),
    }

    def lookup(nm):
        key = nm.split()[0]
        rest = nm[len(key):].strip()
        if key.startswith("chain"):
            ch = key[5:]
            Dc = D
            for c in ch:
                Dc = {"T": Dc.T, "H": Dc.conj().T, "C": Dc.conj()}[c]
            return {"@v": (lambda: _apply_chain_op(P, ch) @ v, Dc @ v), "left": (lambda: W @ _apply_chain_op(P, ch), W @ Dc),
                    "rmatvec": (lambda: _apply_chain_op(P, ch).rmatvec(v), Dc.conj().T @ v)}[rest]
        return pairs[(key, rest)]

    for h in history:
        try:
            lookup(h)[0]()
        except Exception:
            pass
    fn, ref = lookup(name)
    got = np.asarray(fn())
    err = float(np.max(np.abs(got - ref)))
    return err > TOL * max(1.0, float(np.max(np.abs(ref)))), {"obligation": name, "max_abs_error": err, "operations_before_on_the_same_object": list(history)}


def configs(tier):
    cfgs = []
    for mode in ("hermitian", "general", "biorthogonal", "real_R", "real_L"):
        for real in (False, True):
            for n, k in ((2, 1), (3, 1), (3, 2)) + (((4, 2), (4, 1)) if tier == "thorough" else ()):
                cfgs.append(dict(n=n, k=k, mode=mode, real=real, chain=2 if (tier == "quick" or n > 3) else 3))
    cfgs.append(dict(n=3, k=1, mode="hermitian", real=False, chain=1, left_none=False))
    # the same operations in other orders on the one projector object (derived operators requested before / after the first application)
    for mode in ("general", "biorthogonal", "real_R"):
        for order in ("derived_first", "reversed"):
            cfgs.append(dict(n=3, k=1, mode=mode, real=False, chain=2, order=order))
    return [("vf.props.projector", "c17", c) for c in cfgs]
