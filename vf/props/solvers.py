"""C16: built-in Sylvester / Green's function solvers return solutions of their equations."""
from __future__ import annotations

from fractions import Fraction

import numpy as np

from .. import bd, symc
from .. import sympy_bridge as sb
from ..engine import Rec
from ..symc import SymC

TOL = 1e-9


def _num(x):
    a, b = bd.parse_number(x)
    return a, b


def c16_diagonal(cfg):
    """solve_sylvester_diagonal, numpy and sympy branches: residual E_a V_ab - V_ab E_b - Y_ab == 0 (0 where energies coincide)."""
    import sympy
    from pymablock.block_diagonalization import solve_sylvester_diagonal
    from pymablock.series import zero

    rec = Rec("C16", cfg)
    branch = cfg["branch"]
    eigs_spec = cfg["eigs"]  # list of blocks; each block: list of numbers / "sym" names / [] for a zero block (0-d)
    tr = sb.Translator()
    E_symc, eigs_lib = [], []
    for b, blk in enumerate(eigs_spec):
        if blk == "zero":  # zero block: _extract_diagonal yields np.array(0)
            E_symc.append([SymC(symc.R0)] * cfg["zero_dim"])
            eigs_lib.append(np.array(0))
            continue
        vals = []
        lib = []
        for k, v in enumerate(blk):
            if isinstance(v, str) and v.startswith("E"):
                x = SymC(symc.real(v))
                vals.append(x)
                lib.append(sb.sym(v))
            else:
                re, im = _num(v)
                vals.append(SymC(symc._rv(re), symc._rv(im)))
                if branch == "sympy":
                    lib.append(sympy.Rational(re.numerator, re.denominator) + sympy.I * sympy.Rational(im.numerator, im.denominator))
                else:
                    lib.append(complex(float(re), float(im)) if im != 0 else float(re))
        E_symc.append(vals)
        eigs_lib.append(np.array(lib, dtype=object) if branch == "sympy" else np.array(lib))
    solve = solve_sylvester_diagonal(tuple(eigs_lib), atol=1e-12)
    sig = f"diagonal:{branch}"
    for (i, j) in cfg["indices"]:
        Ea, Eb = E_symc[i], E_symc[j]
        n, m = len(Ea), len(Eb)
        Y = symc.general(f"y{i}{j}_", n, m)
        if branch == "sympy":
            Ylib = sb.matrix_to_sympy(Y)
        else:
            Ylib = np.array(Y, dtype=object)
            # exactness bound of the numpy branch: reciprocal gaps must be exact floats
            for a in range(n):
                for b in range(m):
                    ca, cb = Ea[a].const_value(), Eb[b].const_value()
                    g = complex(float(ca[0] - cb[0]), float(ca[1] - cb[1]))
                    if g != 0:
                        gr, gi = ca[0] - cb[0], ca[1] - cb[1]
                        n2 = gr * gr + gi * gi
                        assert Fraction(float(gr / n2)) == gr / n2 and Fraction(float(-gi / n2)) == -gi / n2, "non-dyadic gap in numpy branch config"
        index = (i, j, 1)
        V = solve(Ylib, index)
        assert solve(zero, index) is zero
        if branch == "sympy":
            V = sb.matrix_to_symc(sympy.Matrix(V), tr)
        V = np.asarray(V, dtype=object)
        res = np.empty((n, m), dtype=object)
        for a in range(n):
            for b in range(m):
                same = _same_level(Ea[a], Eb[b])
                if same:
                    res[a, b] = symc.lift(V[a, b])  # must vanish where the energies coincide
                else:
                    res[a, b] = Ea[a] * V[a, b] - V[a, b] * Eb[b] - Y[a, b]

        def replay(model, i=i, j=j, Ea=Ea, Eb=Eb, Y=Y):
            # same branch, same representation of the eigenvalues (incl. the 0-d zero block), concrete values
            def q(x):
                re, im = bd.evaluate(x, model)
                return sympy.Rational(re.numerator, re.denominator) + sympy.I * sympy.Rational(im.numerator, im.denominator)

            eig_c = []
            for blk_spec, blk in zip(eigs_spec, E_symc):
                if blk_spec == "zero":
                    eig_c.append(np.array(0))
                elif branch == "sympy":
                    eig_c.append(np.array([q(e) for e in blk], dtype=object))
                else:
                    eig_c.append(np.array([complex(sympy.N(q(e))) for e in blk]))
            sv = solve_sylvester_diagonal(tuple(eig_c), atol=1e-12)
            if branch == "sympy":
                Yc = sympy.Matrix(len(Ea), len(Eb), lambda a, b: q(Y[a, b]))
                Vn = np.array(sympy.Matrix(sv(Yc, (i, j, 1))).evalf(30).tolist(), dtype=complex)
                Yn = np.array(Yc.evalf(30).tolist(), dtype=complex)
            else:
                Yn = np.array([[complex(sympy.N(q(y))) for y in row] for row in Y])
                Vn = sv(Yn, (i, j, 1))
            ea = np.array([complex(sympy.N(q(e))) for e in Ea])
            eb = np.array([complex(sympy.N(q(e))) for e in Eb])
            gap = ea.reshape(-1, 1) - eb.reshape(1, -1)
            r = np.where(np.abs(gap) > 1e-12, gap * Vn - Yn, Vn)
            err = float(np.max(np.abs(r)))
            return err > TOL * max(1.0, float(np.max(np.abs(Yn)))), {"index": [i, j], "branch": branch, "max_abs_residual": err}

        v = rec.oblige(f"residual block ({i},{j})", res, None, sig=sig, replay=replay)
        if v != "structural":
            rec.nontrivial = True
    from .. import solver

    rec.guard("assumptions_sat", solver.assumptions_sat() == "sat")
    rec.sample = {"config": cfg}
    return rec


def c16_diagonal_sparse(cfg):
    """solve_sylvester_diagonal with scipy.sparse right-hand sides.  Sparse containers cannot carry symbolic payload, so this sub-claim
    is an exhaustive concrete enumeration (declared as such): every sparsity pattern of the block x dyadic values, exact float arithmetic,
    residual compared exactly; the symbolic claim about the formula itself is the numpy/sympy-branch jobs above."""
    import itertools

    from pymablock.block_diagonalization import solve_sylvester_diagonal
    from scipy import sparse

    rec = Rec("C16", cfg)
    eigs = []
    for blk in cfg["eigs"]:
        if blk == "zero":
            eigs.append(np.array(0))
        else:
            vals = [_num(v) for v in blk]
            cplx = any(im != 0 for _, im in vals)
            eigs.append(np.array([complex(float(re), float(im)) if cplx else float(re) for re, im in vals]))
    solve = solve_sylvester_diagonal(tuple(eigs), atol=1e-12)
    dims = [cfg["zero_dim"] if blk == "zero" else len(blk) for blk in cfg["eigs"]]
    n_cases = 0
    for (i, j) in cfg["indices"]:
        n, m = dims[i], dims[j]
        ea = np.zeros(n) if eigs[i].ndim == 0 else eigs[i]
        eb = np.zeros(m) if eigs[j].ndim == 0 else eigs[j]
        gap = ea.reshape(-1, 1) - eb.reshape(1, -1)
        base = np.array([[(1 + a + 2 * b) * 0.5 + (0.25j * (a - b) if cfg.get("complex_rhs") else 0) for b in range(m)] for a in range(n)])
        fails = []
        for pattern in itertools.product([0, 1], repeat=n * m):
            mask = np.array(pattern).reshape(n, m)
            Yd = base * mask
            for fmt in cfg.get("formats", ["csr", "csc", "coo"]):
                Y = getattr(sparse, fmt + "_array")(Yd)
                n_cases += 1
                try:
                    V = solve(Y, (i, j, 1))
                except Exception as e:  # noqa: BLE001
                    fails.append(dict(pattern=list(pattern), format=fmt, error=f"{type(e).__name__}: {e}"[:200]))
                    break
                Vd = V.toarray() if sparse.issparse(V) else np.asarray(V)
                if Vd.shape != (n, m) or not np.all(np.isfinite(Vd)):
                    fails.append(dict(pattern=list(pattern), format=fmt, error=f"shape {Vd.shape} / non-finite entries"))
                    break
                res = np.where(gap != 0, gap * Vd - Yd, Vd)
                if np.any(res != 0):
                    fails.append(dict(pattern=list(pattern), format=fmt, max_abs_residual=float(np.max(np.abs(res)))))
                    break
            if fails:
                break
        name = f"sparse residual block ({i},{j})"
        if fails:
            rec.direct_violation(name, "diagonal:sparse-rhs", dict(fails[0], index=[i, j], eigs=cfg["eigs"]), reproduced=True)
        else:
            rec.discharged(name + f": all {2 ** (n * m)} sparsity patterns x formats, exact residual 0", "confirmed")
    rec.nontrivial = n_cases > 0
    rec.guard("sparse-cases-exist", n_cases > 0)
    rec.sample = {"config": cfg, "cases": n_cases}
    return rec


def _same_level(a, b):
    ca, cb = a.const_value(), b.const_value()
    if ca is not None and cb is not None:
        return ca == cb
    return a.re.get_id() == b.re.get_id() and a.im.get_id() == b.im.get_id()


def configs(tier):
    cfgs = []
    # numpy branch (symbolic right-hand side, dyadic numeric spectra, coincident energies inside a block)
    cfgs.append(dict(branch="numpy", eigs=[["0", "2"], ["1", "4"]], indices=[[0, 1], [1, 0], [0, 0]]))
    cfgs.append(dict(branch="numpy", eigs=[["0", "2", "2", "4"]], indices=[[0, 0]]))
    cfgs.append(dict(branch="numpy", eigs=[["0", "0"], ["2"], ["1", "1", "4"]], indices=[[0, 1], [1, 2], [2, 0], [0, 0], [0, 2], [2, 1]]))
    cfgs.append(dict(branch="numpy", eigs=[["0", "1j"], ["1", "1+1j"]], indices=[[0, 1], [1, 0], [0, 0], [1, 1]]))
    cfgs.append(dict(branch="numpy", eigs=["zero", ["1", "2"]], zero_dim=2, indices=[[0, 1], [1, 0], [0, 0]]))
    # sympy branch: symbolic energies, non-square blocks, equal symbols (zoo handling), rational / complex energies, zero block
    cfgs.append(dict(branch="sympy", eigs=[["E0", "E1"], ["E2"]], indices=[[0, 1], [1, 0], [0, 0], [1, 1]]))
    cfgs.append(dict(branch="sympy", eigs=[["E0", "E0", "E1"], ["E2", "E3"]], indices=[[0, 1], [1, 0], [0, 0], [1, 1]]))
    cfgs.append(dict(branch="sympy", eigs=[["0", "1/3", "1/3"], ["2/7"]], indices=[[0, 1], [1, 0], [0, 0]]))
    cfgs.append(dict(branch="sympy", eigs=[["0", "1+1/2j"], ["-1j", "3"]], indices=[[0, 1], [1, 0], [0, 0], [1, 1]]))
    cfgs.append(dict(branch="sympy", eigs=["zero", ["1", "E1"]], zero_dim=1, indices=[[0, 1], [1, 0], [0, 0], [1, 1]]))
    cfgs.append(dict(branch="sympy", eigs=["zero", ["1", "3"]], zero_dim=2, indices=[[0, 1], [1, 0], [0, 0]]))
    if tier == "thorough":
        cfgs.append(dict(branch="sympy", eigs=[["E0", "E1", "E2"], ["E3", "E4", "E5"], ["E6"]], indices=[[a, b] for a in range(3) for b in range(3)]))
        cfgs.append(dict(branch="numpy", eigs=[["0", "4", "4"], ["2", "2"]], indices=[[a, b] for a in range(2) for b in range(2)]))
    jobs = [("vf.props.solvers", "c16_diagonal", c) for c in cfgs]
    for c in cfgs:
        if c["branch"] == "numpy" and all(blk == "zero" or len(blk) <= 3 for blk in c["eigs"]):
            jobs.append(("vf.props.solvers", "c16_diagonal_sparse", dict(c, branch="sparse")))
            if tier == "thorough":
                jobs.append(("vf.props.solvers", "c16_diagonal_sparse", dict(c, branch="sparse", complex_rhs=True)))
    for name in ("boson_scalar", "boson_2x2", "boson_2blocks", "boson_nonsquare", "boson_nonhermitian_rhs", "boson_2x2_nonhermitian_rhs", "spin_boson", "fermions", "fermion_boson", "ladder", "boson_ladder", "spin_fermion"):
        jobs.append(("vf.props.secondq", "c16_2nd_quant", dict(set=name, _job="2nd_quant")))
    from .implicit import configs_c16_direct

    jobs += configs_c16_direct(tier)
    return jobs
