"""C08: NumberOrderedForm arithmetic denotes the operator algebra (conversion, +, -, *, **, adjoint, as_expr).

Both sides of every obligation are denoted by the SAME independent evaluator (vf/fock.py): the library result
through its public `as_expr()`, the reference through the original word(s).  Words and splittings are
enumerated; the Fock state (boson / ladder occupations) and scalar coefficients are symbolic, binary
occupations are case-split; z3 decides `action(lib) != action(reference)`.
"""
from __future__ import annotations

import itertools

import numpy as np
import sympy
from sympy.physics.quantum import Dagger, pauli
from sympy.physics.quantum.boson import BosonOp
from sympy.physics.quantum.fermion import FermionOp

from .. import fock, symc
from fractions import Fraction

from ..engine import Rec
from ..symc import SymC


def alphabet(name):
    from pymablock.number_ordered_form import LadderOp, NumberOperator

    a, b = BosonOp("a"), BosonOp("b")
    c, d, e = FermionOp("c"), FermionOp("d"), FermionOp("e")
    s = pauli.SigmaMinus("s")
    l = LadderOp("l")
    Na, Nb, Nc, Nd, Nl = (NumberOperator(x) for x in (a, b, c, d, l))
    A = {
        "b1": ([a], [a, Dagger(a), Na, Na + 1]),
        "b1x": ([a], [a, Dagger(a), Na, Na + 2, a**2, Dagger(a) ** 2]),
        "b2": ([a, b], [a, Dagger(a), Na, b, Dagger(b), Nb]),
        "f2": ([c, d], [c, Dagger(c), Nc, d, Dagger(d), Nd]),
        "f3": ([c, d, e], [c, Dagger(c), d, Dagger(d), e, Dagger(e)]),
        "f3n": ([c, d, e], [c, Dagger(c), d, Dagger(d), e, Dagger(e), Nd]),
        "spin": ([s], [s, pauli.SigmaPlus("s"), pauli.SigmaZ("s"), pauli.SigmaX("s"), pauli.SigmaY("s")]),
        "ladder": ([l], [l, Dagger(l), Nl, Nl + 1]),
        "mixed": ([a, l, s, c, d], [a, Dagger(a), l, Dagger(l), s, pauli.SigmaPlus("s"), c, Dagger(c), d, Dagger(d), Na]),
        "bf": ([a, c], [a, Dagger(a), Na, c, Dagger(c), Nc]),
        "babs": ([a], [a, Dagger(a), sympy.Abs(Na - 2), sympy.Abs(2 * Na - 3)]),
        "bpow": ([a, c], [a, Dagger(a), (-1) ** Na, 2 ** Na, c, Dagger(c), (-1) ** Nc * 3 ** Na]),
        "b1r": ([a], [a, Dagger(a), Na, (Na + 1) ** -1, (Na + 2) ** -1 * Na]),
        "s2": ([s, pauli.SigmaMinus("t")], [s, pauli.SigmaPlus("s"), pauli.SigmaZ("s"), pauli.SigmaMinus("t"), pauli.SigmaPlus("t"), pauli.SigmaX("t")]),
        "l2": ([l, LadderOp("m")], [l, Dagger(l), Nl, LadderOp("m"), Dagger(LadderOp("m")), NumberOperator(LadderOp("m"))]),
        "sf": ([s, c, d], [s, pauli.SigmaPlus("s"), c, Dagger(c), d, Dagger(d), pauli.SigmaZ("s")]),
        "bs": ([a, s], [a, Dagger(a), Na + 1, s, pauli.SigmaPlus("s"), pauli.SigmaZ("s")]),
    }
    return A[name]


def _word_expr(letters):
    out = sympy.S.One
    for x in letters:
        out = out * x
    return out


class Denoter:
    """Action on the symbolic Fock state for every binary case; cached per expression."""

    def __init__(self, modes, boundary=(), symbolic=True):
        """boundary: concrete occupations at which every boson mode is evaluated IN ADDITION to the symbolic occupation
        (needed when coefficients are rational functions of N: an identity of rational functions says nothing about the
        occupations where a pole of a shifted coefficient meets the zero of a falling factorial, e.g. the vacuum)."""
        self.modes = modes
        self.cases = [fock.Fock(modes, binary=b) for b in fock.binary_cases(modes)] if symbolic else []
        self.n_symbolic = len(self.cases)
        bos = [k for k, m in enumerate(modes) if fock.kind_of(m) == "boson"]
        for occ in boundary:
            for b in fock.binary_cases(modes):
                self.cases.append(fock.Fock(modes, binary={**b, **{k: occ for k in bos}}))
        self.cache = {}

    def act_word(self, letters):
        """Action of an ordered product of letters (applied right to left), without building a sympy Mul
        (sympy would reorder / simplify commuting or nilpotent factors - the reference must stay literal)."""
        key = ("w", tuple(letters))
        if key not in self.cache:
            res = []
            for F in self.cases:
                st = F.init()
                for x in reversed(letters):
                    st = F.act(x, st)
                res.append(st)
            self.cache[key] = res
        return self.cache[key]

    def act_expr(self, e):
        return [F.act(e, F.init()) for F in self.cases]

    def act_expr_on(self, e, states):
        return [F.act(e, st) for F, st in zip(self.cases, states)]

    def clauses(self, A, B):
        cl = []
        for F, a, b in zip(self.cases, A, B):
            cl += F.diff_clauses(a, b)
        return cl

    def clauses_split(self, A, B):
        """(clauses of the symbolic-occupation cases, clauses of the concrete boundary-occupation cases)."""
        n_gen = self.n_symbolic
        gen, bnd = [], []
        for k, (F, a, b) in enumerate(zip(self.cases, A, B)):
            (gen if k < n_gen else bnd).extend(F.diff_clauses(a, b))
        return gen, bnd

    @staticmethod
    def add(A, B, sign=1):
        out = []
        for a, b in zip(A, B):
            r = dict(a)
            for k, v in b.items():
                v = v if sign == 1 else -v
                r[k] = r[k] + v if k in r else v
            out.append(r)
        return out

    @staticmethod
    def scale(A, c):
        return [{k: v * c for k, v in a.items()} for a in A]


def _replay_factory(modes, lib_expr_fn, ref_letters_fn, desc):
    """Numeric replay in a truncated matrix representation (interior states only)."""

    def replay(model):
        params = {k[2:]: float(v) for k, v in model.items() if k.startswith("p_")}
        # boundary-occupation counterexamples live at occupations 0..4: keep those columns inside the compared window
        rep = fock.MatrixRep(modes, cutoff=13 if desc.get("boundary") else 9, params=params)
        L = rep.matrix(lib_expr_fn())
        R = ref_letters_fn(rep)
        inside = rep.interior(margin=7)
        diff = (L - R)[:, inside]
        err = float(np.max(np.abs(diff))) if diff.size else 0.0
        return err > 1e-8, dict(desc, max_abs_error=err)

    return replay


def _mat_word(rep, letters):
    D = int(np.prod(rep.dims))
    out = np.eye(D, dtype=complex)
    for x in letters:
        out = out @ rep.matrix(x)
    return out


def c08(cfg):
    from pymablock.number_ordered_form import NumberOrderedForm

    rec = Rec("C08", cfg)
    modes, letters = alphabet(cfg["alphabet"])
    # alphabets whose coefficients are rational functions of N are also evaluated at the boundary occupations 0 and 1
    # "bpow" (q ** N coefficients) cannot be denoted for a symbolic occupation: concrete occupations 0..3 only (declared)
    den = Denoter(modes, boundary=(0, 1, 2, 3, 4), symbolic=False) if cfg["alphabet"] in ("bpow", "babs") else Denoter(modes, boundary=(0, 1) if cfg["alphabet"] in ("b1r",) else ())
    lengths = cfg["lengths"]
    words = [w for L in lengths for w in itertools.product(range(len(letters)), repeat=L)]
    ci, cn = cfg.get("chunk", (0, 1))
    words = words[ci::cn]
    checks = cfg.get("checks", ["convert", "split", "adjoint"])
    nof_cache = {}

    def nof(idx):
        if idx not in nof_cache:
            nof_cache[idx] = NumberOrderedForm.from_expr(_word_expr([letters[i] for i in idx]), operators=modes)
        return nof_cache[idx]

    def L(idx):
        return [letters[i] for i in idx]

    def names(idx):
        return " ".join(str(letters[i]) for i in idx)

    n_obl = 0
    seen_sigs = set()

    def oblige(name, lib_nof_fn, ref_states, sig, ref_mat_fn):
        nonlocal n_obl
        try:
            lib = lib_nof_fn()
        except Exception as e:
            from .herm import library_exception_info

            is_lib, where = library_exception_info(e)
            if not is_lib:
                raise
            if sig + ":raised" not in seen_sigs:
                seen_sigs.add(sig + ":raised")
                rec.direct_violation(name, sig + f":raised-{type(e).__name__}", {"exception": f"{type(e).__name__}: {e}"[:300], "where": where})
            return
        try:
            lib_states = den.act_expr(lib.as_expr() if hasattr(lib, "as_expr") else lib)
        except symc.SymbolicDivisionByZero as e:
            # the library's result has a pole AT a concrete boundary occupation (the reference word is regular there): same class as a
            # wrong value that shows only at the boundary occupations
            bsig = sig + ":only-at-boundary-occupation"
            n_obl += 1
            if bsig not in seen_sigs:
                seen_sigs.add(bsig)
            rec.direct_violation(name + " [library result singular at boson occupation 0 or 1]", bsig, {"case": name, "boundary": True, "error": str(e)[:200]}, reproduced=True)
            return
        cl, cl_boundary = den.clauses_split(lib_states, ref_states)
        n_obl += 1
        if sig in seen_sigs and cl:
            # one reproduced counterexample per signature is enough; later ones are still decided but not replayed
            v = rec.oblige_clauses(name, cl, sig=sig, replay=lambda m: (True, {"note": "same signature as an already replayed counterexample"}), cross=False)
        else:
            v = rec.oblige_clauses(name, cl, sig=sig, replay=_replay_factory(modes, lambda: lib.as_expr(), ref_mat_fn, {"case": name}), cross=None if cl else False)
        if v == "sat":
            seen_sigs.add(sig)
        if v != "structural":
            rec.nontrivial = True
        if v != "sat" and cl_boundary:
            # the identity holds as rational functions of the occupation but fails AT a boundary occupation (vacuum / one quantum)
            bsig = sig + ":only-at-boundary-occupation"
            n_obl += 1
            vb = rec.oblige_clauses(name + " [boson occupation 0 or 1]", cl_boundary, sig=bsig,
                                    replay=(lambda m: (True, {"note": "same signature as an already replayed counterexample"})) if bsig in seen_sigs
                                    else _replay_factory(modes, lambda: lib.as_expr(), ref_mat_fn, {"case": name, "boundary": True}), cross=False)
            if vb == "sat":
                seen_sigs.add(bsig)

    def sig_for(kind, left, right=None):
        def cls(idx):
            ks = set()
            for i in idx:
                x = letters[i]
                ks.add("number-coeff" if x.has(__import__("pymablock.number_ordered_form", fromlist=["x"]).NumberOperator) or isinstance(x, pauli.SigmaZ) else
                       ("fermion" if x.has(FermionOp) else "boson" if x.has(BosonOp) else "spin" if x.has(pauli.SigmaOpBase) else "ladder"))
            return "+".join(sorted(ks))

        s = f"{kind}:alphabet={cfg['alphabet']}:left={cls(left)}"
        if right is not None:
            n_ann = sum(1 for i in right if getattr(letters[i], "is_annihilation", False) is True and isinstance(letters[i], FermionOp))
            s += f":right={cls(right)}:right_fermion_annihilators={min(n_ann, 2)}"
        return s

    for w in words:
        lw = L(w)
        ref = den.act_word(lw)
        if "convert" in checks:
            oblige(f"from_expr({names(w)})", lambda w=w: nof(w), ref, sig_for("convert", w), lambda rep, lw=lw: _mat_word(rep, lw))
        if "split" in checks:
            for k in range(1, len(w)):
                x, y = w[:k], w[k:]
                oblige(f"({names(x)}) * ({names(y)})", lambda x=x, y=y: nof(x) * nof(y), ref, sig_for("product", x, y), lambda rep, lw=lw: _mat_word(rep, lw))
        if "assoc" in checks and len(w) >= 3:
            for k1 in range(1, len(w) - 1):
                for k2 in range(k1 + 1, len(w)):
                    x, y, z = w[:k1], w[k1:k2], w[k2:]
                    oblige(f"(({names(x)})*({names(y)}))*({names(z)})", lambda x=x, y=y, z=z: (nof(x) * nof(y)) * nof(z), ref, sig_for("assocL", x + y, z), lambda rep, lw=lw: _mat_word(rep, lw))
                    oblige(f"({names(x)})*(({names(y)})*({names(z)}))", lambda x=x, y=y, z=z: nof(x) * (nof(y) * nof(z)), ref, sig_for("assocR", x, y + z), lambda rep, lw=lw: _mat_word(rep, lw))
        if "adjoint" in checks:
            radj = den.act_word([Dagger(x) for x in reversed(lw)])
            oblige(f"Dagger({names(w)})", lambda w=w: Dagger(nof(w)), radj, sig_for("adjoint", w), lambda rep, lw=lw: _mat_word(rep, [Dagger(x) for x in reversed(lw)]))
        if "scalar" in checks and len(w) <= 2:
            # products with plain scalars in both operand orders (Python int / Fraction-like / sympy numbers), division by an integer
            rw = den.act_word(lw)
            for label, fn, fac in (("* 2", lambda x: x * 2, 2), ("2 *", lambda x: 2 * x, 2), ("* Rational(3,2)", lambda x: x * sympy.Rational(3, 2), sympy.Rational(3, 2)),
                                   ("Rational(3,2) *", lambda x: sympy.Rational(3, 2) * x, sympy.Rational(3, 2)), ("/ 2", lambda x: x / 2, sympy.Rational(1, 2))):
                ref = [{k: v * SymC(symc._rv(Fraction(int(sympy.numer(fac)), int(sympy.denom(fac))))) for k, v in st.items()} for st in rw]
                oblige(f"({names(w)}) {label}", lambda w=w, fn=fn: fn(nof(w)), ref, sig_for("scalar", w), lambda rep, lw=lw, fac=fac: float(fac) * _mat_word(rep, lw))
        if "power" in checks and len(w) <= 2:
            for p in (2, 3):
                oblige(f"({names(w)})**{p}", lambda w=w, p=p: nof(w) ** p, den.act_word(lw * p), sig_for(f"power{p}", w), lambda rep, lw=lw, p=p: _mat_word(rep, lw * p))
    if "sum" in checks:
        alpha = sympy.Symbol("alpha", real=True)
        pairs = list(itertools.product(words[: cfg.get("sum_words", 12)], repeat=2))
        for w1, w2 in pairs:
            r1, r2 = den.act_word(L(w1)), den.act_word(L(w2))
            al = [F.param(alpha) for F in den.cases]
            ref_sum = [dict(x) for x in den.add(r1, [{k: v * a for k, v in st.items()} for st, a in zip(r2, al)])]
            oblige(f"({names(w1)}) + alpha*({names(w2)})", lambda w1=w1, w2=w2: nof(w1) + alpha * nof(w2), ref_sum, sig_for("sum", w1 + w2),
                   lambda rep, w1=w1, w2=w2: _mat_word(rep, L(w1)) + rep.params.get("alpha", 1.0) * _mat_word(rep, L(w2)))
            ref_diff = den.add(r1, r2, sign=-1)
            oblige(f"({names(w1)}) - ({names(w2)})", lambda w1=w1, w2=w2: nof(w1) - nof(w2), ref_diff, sig_for("difference", w1 + w2),
                   lambda rep, w1=w1, w2=w2: _mat_word(rep, L(w1)) - _mat_word(rep, L(w2)))
        # distributivity: x * (y + z) and (y + z) * x
        trip = list(itertools.product(words[: cfg.get("dist_words", 6)], repeat=3))
        for x, y, z in trip:
            ref1 = den.add(den.act_word(L(x) + L(y)), den.act_word(L(x) + L(z)))
            oblige(f"({names(x)})*(({names(y)})+({names(z)}))", lambda x=x, y=y, z=z: nof(x) * (nof(y) + nof(z)), ref1, sig_for("distribL", x, y + z),
                   lambda rep, x=x, y=y, z=z: _mat_word(rep, L(x) + L(y)) + _mat_word(rep, L(x) + L(z)))
            ref2 = den.add(den.act_word(L(y) + L(x)), den.act_word(L(z) + L(x)))
            oblige(f"(({names(y)})+({names(z)}))*({names(x)})", lambda x=x, y=y, z=z: (nof(y) + nof(z)) * nof(x), ref2, sig_for("distribR", y + z, x),
                   lambda rep, x=x, y=y, z=z: _mat_word(rep, L(y) + L(x)) + _mat_word(rep, L(z) + L(x)))
    from .. import solver

    rec.guard("assumptions_sat", solver.assumptions_sat() == "sat")
    # reachability twin: some word and its reversal denote different operators (the evaluator sees non-commutativity)
    import z3

    ok = None
    for w in [w for w in words if len(w) >= 2][:40]:
        cl = den.clauses(den.act_word(L(w)), den.act_word(L(w[::-1])))
        if not cl:
            continue
        s = solver._base_solver(30000)
        s.add(z3.Or(cl))
        if str(s.check()) == "sat":
            ok = True
            break
        ok = False
    if ok is not None:
        rec.guard("twin_noncommutative", ok)
    rec.sample = {"config": cfg, "words": len(words), "first_words": [names(w) for w in words[:3]], "obligations": n_obl}
    return rec


def configs(tier):
    cfgs = []

    def add(alph, lengths, nchunk=1, **kw):
        for c in range(nchunk):
            cfgs.append(dict(alphabet=alph, lengths=lengths, chunk=[c, nchunk], **kw))

    full = ["convert", "split", "adjoint", "assoc", "power"]
    if tier == "quick":
        add("b1", [1, 2, 3, 4], 2, checks=full)
        add("b1x", [1, 2, 3], 1, checks=full)
        add("b2", [1, 2, 3], 2, checks=full)
        add("f2", [1, 2, 3], 2, checks=full)
        add("f3", [1, 2, 3], 2, checks=full)
        add("f3", [4], 8, checks=["split"])
        add("spin", [1, 2, 3, 4], 1, checks=full)
        add("ladder", [1, 2, 3, 4], 1, checks=full)
        add("bf", [1, 2, 3], 2, checks=full)
        add("bs", [1, 2, 3], 2, checks=full)
        add("mixed", [1, 2], 2, checks=full)
        add("mixed", [3], 6, checks=["split"])
        add("b1r", [1, 2, 3], 1, checks=full)
        add("b1", [1, 2], 1, checks=["scalar"])
        add("bpow", [1, 2, 3], 2, checks=["convert", "split"])
        add("babs", [1, 2, 3], 1, checks=["convert", "split"])
        add("bf", [1, 2], 1, checks=["scalar"])
        add("s2", [1, 2, 3], 2, checks=full)
        add("l2", [1, 2, 3], 2, checks=full)
        add("sf", [1, 2, 3], 3, checks=full)
    else:
        add("b1r", [1, 2, 3, 4], 8, checks=full)
        add("s2", [1, 2, 3, 4], 16, checks=full)
        add("l2", [1, 2, 3, 4], 16, checks=full)
        add("sf", [1, 2, 3, 4], 24, checks=["split", "convert", "adjoint"])
        add("b1", [1, 2, 3, 4, 5, 6], 16, checks=full)
        add("b1x", [1, 2, 3, 4], 8, checks=full)
        add("b2", [1, 2, 3, 4], 16, checks=full)
        add("b2", [5], 16, checks=["split"])
        add("f2", [1, 2, 3, 4], 16, checks=full)
        add("f2", [5], 16, checks=["split"])
        add("f3", [1, 2, 3, 4], 16, checks=full)
        add("f3", [5], 32, checks=["split"])
        add("f3n", [1, 2, 3, 4], 16, checks=["split", "convert"])
        add("spin", [1, 2, 3, 4, 5], 8, checks=full)
        add("ladder", [1, 2, 3, 4, 5], 8, checks=full)
        add("bf", [1, 2, 3, 4], 16, checks=full)
        add("bs", [1, 2, 3, 4], 16, checks=full)
        add("mixed", [1, 2, 3], 16, checks=full)
        add("mixed", [4], 32, checks=["split"])
    # sums / differences / scalar multiples / distributivity
    for alph in ("b1", "f2", "f3", "bs", "mixed") if tier == "quick" else ("b1", "b2", "f2", "f3", "spin", "ladder", "bf", "bs", "mixed"):
        cfgs.append(dict(alphabet=alph, lengths=[1, 2], chunk=[0, 1], checks=["sum"], sum_words=10 if tier == "quick" else 30, dist_words=5 if tier == "quick" else 10))
    return [("vf.props.nof", "c08", c) for c in cfgs] + [("vf.props.nof", "c08_cancellation", dict(_job="cancellation"))]


def c08_cancellation(cfg):
    """Sums in which non-number-conserving terms cancel denote number-conserving operators: they must be recognised as such (inverse,
    functions) and denote the right operator.  Symbolic occupation; oracle = action on the Fock state."""
    from pymablock.number_ordered_form import NumberOperator, NumberOrderedForm

    rec = Rec("C08", cfg)
    a = BosonOp("a")
    Na = NumberOperator(a)
    den = Denoter([a])
    x = (a + Dagger(a)) / sympy.sqrt(2)
    p = sympy.I * (Dagger(a) - a) / sympy.sqrt(2)
    cases = {
        "harmonic_oscillator": (lambda: NumberOrderedForm.from_expr(((x * x + p * p) / 2).expand()), [(Na + sympy.Rational(1, 2))]),
        "sum_minus_same": (lambda: (NumberOrderedForm.from_expr(a + Na + 1) - NumberOrderedForm.from_expr(a)), [(Na + 1)]),
    }
    for name, (build, ref_letters) in cases.items():
        sig = f"cancellation:{name}"
        try:
            h = build()
            conserving = h.is_particle_conserving()
            inv = h ** -1
        except Exception as e:  # noqa: BLE001
            from .herm import library_exception_info

            is_lib, where = library_exception_info(e, pure_inputs=True)
            if not is_lib:
                raise
            rec.direct_violation(f"{name}: raised", sig + f":raised-{type(e).__name__}", {"exception": f"{type(e).__name__}: {e}"[:300], "where": where}, reproduced=True)
            continue
        if not conserving:
            rec.direct_violation(f"{name}: not recognised as number conserving", sig + ":not-conserving", {"terms": str(dict(h.terms))[:200]}, reproduced=True)
            continue
        ref = den.act_word(ref_letters)
        cl = den.clauses(den.act_expr(h.as_expr()), ref)
        rec.oblige_clauses(f"{name}: value", cl, sig=sig + ":value", replay=lambda m: (True, {"note": "symbolic"}), cross=False)
        ref_inv = den.act_word([ref_letters[0] ** -1])
        cl = den.clauses(den.act_expr(inv.as_expr()), ref_inv)
        rec.oblige_clauses(f"{name}: inverse", cl, sig=sig + ":inverse", replay=lambda m: (True, {"note": "symbolic"}), cross=False)
    rec.nontrivial = True
    rec.sample = {"config": cfg}
    return rec
