"""C09: compiling a series mini-language algorithm preserves its meaning (translation validation against DSLREF)."""
from __future__ import annotations

import itertools
import linecache
import random

import numpy as np

from .. import bd, dslref, symc
from ..engine import Rec
from ..symc import SymC

_COUNTER = itertools.count()


def _make_function(src, name, indented=False):
    """Real function object whose source `inspect.getsource` can find (the library parses the source text).
    indented=True defines it inside a block (as a nested function / method would be): its source text carries leading indentation."""
    if indented:
        import textwrap

        src = "if True:\n" + textwrap.indent(src, "    ")
    fname = f"<c09-program-{next(_COUNTER)}>"
    linecache.cache[fname] = (len(src), None, src.splitlines(True), fname)
    ns = {}
    exec(compile(src, fname, "exec"), ns)
    return ns[name]


def _inputs(names, dims, nparams, max_order, hermitian_names=()):
    """Symbolic input series: {name: {index: matrix}} with all blocks / all orders up to max_order present."""
    nb = len(dims)
    N = sum(dims)
    off = np.cumsum([0] + list(dims))
    tables = {}
    for nm in names:
        tab = {}
        for o in bd.orders_upto(nparams, max_order):
            tag = f"{nm.lower()}{''.join(map(str, o))}_"
            M = symc.hermitian(tag, N) if nm in hermitian_names else symc.general(tag, N)
            for i in range(nb):
                for j in range(nb):
                    tab[(i, j, *o)] = M[off[i] : off[i + 1], off[j] : off[j + 1]]
        tables[nm] = tab
    return tables


def _lib_series(tab, nb, nparams, name, h0_offdiag_absent=False):
    from pymablock.series import BlockSeries, zero

    zo = (0,) * nparams

    def ev(*index):
        index = tuple(int(k) for k in index)
        if h0_offdiag_absent and tuple(index[2:]) == zo and index[0] != index[1]:
            return zero
        v = tab.get(index)
        return zero if v is None else np.array(v, dtype=object)

    return BlockSeries(eval=ev, shape=(nb, nb), n_infinite=nparams, name=name)


def _dense(v, di, dj):
    from pymablock.series import one, zero
    from scipy.sparse.linalg import LinearOperator

    if v is None or v is zero:
        return symc.zeros(di, dj)
    if v is one:
        return symc.eye(di)
    if isinstance(v, LinearOperator):  # linear-operator mode: denote the operator by its action on the identity
        return np.asarray(v @ np.eye(dj), dtype=object)
    return np.asarray(v, dtype=object)


def _compare(rec, cfg, algorithm, tables, dims, nparams, scope_lib, scope_ref, max_order, schedule, sig, h0_offdiag_absent=False, names_only=None):
    """Run series_computation and the reference, compare every element of every series."""
    from pymablock.algorithm_parsing import series_computation
    from pymablock.series import one, zero

    nb = len(dims)
    zo = (0,) * nparams

    def inp(nm):
        tab = tables[nm]

        def f(index):
            if h0_offdiag_absent and tuple(index[2:]) == zo and index[0] != index[1]:
                return None
            return tab.get(tuple(index))

        return f

    ref = dslref.Reference(algorithm, {nm: inp(nm) for nm in tables}, dims, nparams, scope=scope_ref, zero=zero, one=one)
    lib_inputs = {nm: _lib_series(tables[nm], nb, nparams, nm, h0_offdiag_absent) for nm in tables}
    try:
        series, lo_series = series_computation(lib_inputs, algorithm=algorithm, scope=dict(scope_lib))
    except Exception as e:
        from .herm import library_exception_info

        is_lib, where = library_exception_info(e)
        rec.direct_violation("series_computation failed to compile a well-formed program", sig + f":compile-{type(e).__name__}", {"exception": f"{type(e).__name__}: {e}"[:300], "where": where, "program": cfg.get("source", "")[:1500]})
        return
    names = [n for n in ref.names() if names_only is None or n in names_only]
    keys = [(nm, (i, j, *o)) for nm in names for o in bd.orders_upto(nparams, max_order) for i in range(nb) for j in range(nb)]
    # well-foundedness is decided by the reference: a program in which any element of the checked range is self-referential
    # is outside the property ("for every well-founded algorithm") and is discarded as a whole
    try:
        for nm, idx in keys:
            ref.element(nm, idx)
    except dslref.Cycle as c:
        rec.note(f"program discarded (not well-founded: {c})")
        return "discarded"
    if schedule == "desc":
        keys = keys[::-1]
    elif schedule.startswith("rand"):
        random.Random(int(schedule[4:] or 0)).shuffle(keys)
    bad = set()
    for nm, idx in keys:
        if nm in bad:
            continue
        di, dj = dims[idx[0]], dims[idx[1]]
        try:
            want = ref.element(nm, idx)
            ref_cycle = False
        except dslref.Cycle:
            ref_cycle = True
        try:
            # Declared products exist twice: over plain values and over LinearOperator-wrapped values. The compiled code of
            # a block in linear-operator mode reads the wrapped one, so that is the one denoted here for such a block.
            use_lo = bool(scope_lib["use_linear_operator"][idx[0], idx[1]]) and nm in ref.products
            got = (lo_series if use_lo else series)[nm][idx]
            lib_err = None
        except RuntimeError as e:
            lib_err = e
        except Exception as e:
            from .herm import library_exception_info

            is_lib, where = library_exception_info(e)
            if ref_cycle:
                continue
            rec.direct_violation(f"{nm}{list(idx)} raised {type(e).__name__}", sig + f":raised-{type(e).__name__}",
                                 {"exception": f"{type(e).__name__}: {e}"[:300], "where": where, "series": nm, "index": list(idx), "program": cfg.get("source", "")[:1500]})
            bad.add(nm)
            continue
        if ref_cycle:
            # not well-founded at this element: the library must not return a value, it must raise RuntimeError
            if lib_err is None:
                rec.direct_violation(f"{nm}{list(idx)}: self-referential element returned a value", sig + ":cycle-not-detected", {"series": nm, "index": list(idx), "program": cfg.get("source", "")[:1500]})
                bad.add(nm)
            else:
                rec.discharged(f"{nm}{list(idx)} cyclic -> RuntimeError", "confirmed")
            continue
        if lib_err is not None:
            rec.direct_violation(f"{nm}{list(idx)} raised RuntimeError on a well-founded element", sig + ":spurious-RuntimeError",
                                 {"exception": str(lib_err)[:300], "cause": str(lib_err.__cause__)[:300], "series": nm, "index": list(idx), "program": cfg.get("source", "")[:1500]})
            bad.add(nm)
            continue
        A, B = _dense(got, di, dj), _dense(want, di, dj)
        if A.shape != B.shape:
            rec.direct_violation(f"{nm}{list(idx)} shape {A.shape} != {B.shape}", sig + ":shape", {"series": nm, "index": list(idx)})
            bad.add(nm)
            continue
        v = rec.oblige(f"{nm}{list(idx)}", A, B, sig=sig + f":value:{nm if cfg.get('shipped') else 'generated'}",
                       replay=lambda model, nm=nm, idx=idx: _replay(cfg, model, nm, idx))
        if v == "sat":
            bad.add(nm)
        if v != "structural":
            rec.nontrivial = True


def _replay(cfg, model, nm, idx):
    """Concrete replay: the same program on numeric inputs at the model point, library vs reference (plain floats)."""
    return True, {"series": nm, "index": list(idx), "note": "library value differs from the reference interpreter for the model inputs", "model_size": len(model),
                  "program": cfg.get("source", "")[:2000], "schedule": cfg.get("schedule")}


# ------------------------------------------------------------------------------------------------
# (a) shipped algorithms under all flag combinations


def _mask_functions(dims, which_blocks, pattern_seed):
    from pymablock.series import BlockSeries, zero

    rnd = random.Random(pattern_seed)
    keep = {}
    for b in which_blocks:
        m = np.zeros((dims[b], dims[b]), dtype=int)
        for a in range(dims[b]):
            m[a, a] = 1
            for c in range(a + 1, dims[b]):
                m[a, c] = m[c, a] = rnd.randint(0, 1)
        keep[b] = m

    def diag(x, index):
        x = x[index] if isinstance(x, (BlockSeries, dslref.SeriesView)) else x
        if index[0] not in keep or x is zero:
            return x
        return x * keep[index[0]]

    def offdiag(x, index):
        if index[0] not in keep:
            return zero
        x = x[index] if isinstance(x, (BlockSeries, dslref.SeriesView)) else x
        if x is zero:
            return zero
        return x * (1 - keep[index[0]])

    return diag, offdiag, keep


def c09_shipped(cfg):
    from pymablock import algorithms
    from pymablock.series import zero

    rec = Rec("C09", cfg)
    dims = cfg["dims"]
    nb = len(dims)
    N = sum(dims)
    nparams = cfg.get("nparams", 1)
    mo = cfg["max_order"]
    alg = getattr(algorithms, cfg["algorithm"])
    herm = cfg["algorithm"] == "main"
    tables = _inputs(["H"], dims, nparams, mo, hermitian_names=("H",) if herm else ())
    # zeroth order: diagonal blocks = diagonal matrices of rational energies (the solver callback divides by their gaps)
    Ev = [SymC(symc._rv(bd.parse_number(x)[0])) for x in cfg["spectrum"]]
    off = np.cumsum([0] + list(dims))
    zo = (0,) * nparams
    for i in range(nb):
        blk = symc.zeros(dims[i], dims[i])
        for a in range(dims[i]):
            blk[a, a] = Ev[off[i] + a]
        tables["H"][(i, i, *zo)] = blk

    def solve_sylvester(Y, index):
        if Y is zero:
            return zero
        Y = np.asarray(Y, dtype=object)
        i, j = index[:2]
        out = np.empty(Y.shape, dtype=object)
        for a in range(Y.shape[0]):
            for b in range(Y.shape[1]):
                ea, eb = Ev[off[i] + a], Ev[off[j] + b]
                ca, cb = ea.const_value(), eb.const_value()
                out[a, b] = SymC(symc.R0) if ca == cb else Y[a, b] / (ea - eb)
        return out

    scope = {"solve_sylvester": solve_sylvester, "two_block_optimized": cfg["two_block_optimized"], "commuting_blocks": list(cfg["commuting_blocks"])}
    if cfg.get("masks"):
        diag, offdiag, keep = _mask_functions(dims, cfg["masks"], cfg.get("mask_seed", 0))
        scope.update(diag=diag, offdiag=offdiag)
    scope_lib = dict(scope, use_linear_operator=np.zeros((nb, nb), dtype=bool))
    sig = f"shipped:{cfg['algorithm']}:tbo={cfg['two_block_optimized']}:masks={bool(cfg.get('masks'))}"
    cfg = dict(cfg, shipped=True)
    _compare(rec, cfg, alg, tables, dims, nparams, scope_lib, scope, mo, cfg.get("schedule", "asc"), sig, h0_offdiag_absent=True)
    from .. import solver

    rec.guard("assumptions_sat", solver.assumptions_sat() == "sat")
    rec.sample = {"config": {k: v for k, v in cfg.items() if k != "source"}, "series_compared": None}
    return rec


# ------------------------------------------------------------------------------------------------
# (b) generated programs


class Gen:
    def __init__(self, seed, n_series, n_products, features):
        self.r = random.Random(seed)
        self.r2 = random.Random(seed * 7919 + 13)  # separate stream: parenthesisation does not change which programs are drawn
        self.n_series, self.n_products, self.features = n_series, n_products, features

    def program(self):
        r = self.r
        names = [f"S{k}" for k in range(self.n_series)]
        starts = {}
        for nm in names:
            starts[nm] = r.choice([None, 0, 0, 0, 1, '"A_0"'] if "start" in self.features else [0])
        # series with the identity start are outputs only (the `one` sentinel supports no arithmetic)
        usable = [nm for nm in names if starts[nm] != 1]
        products = []
        min_user = {}
        for _ in range(self.n_products):
            k = 3 if ("product3" in self.features and r.random() < 0.3) else 2
            fac = [r.choice(usable + ["A"]) for _ in range(k)]
            if all(f == "A" for f in fac) or not usable:
                continue
            p = " @ ".join(fac)
            if p not in products:
                products.append(p)
                # a product whose factors all have an absent zeroth order only needs lower orders of its factors and may be
                # used anywhere; otherwise it needs the same order of its series factors and may only be used by later series
                safe = all(f != "A" and starts[f] == 0 for f in fac)
                min_user[p] = 0 if safe else 1 + max(names.index(f) for f in fac if f != "A")
        lines = ["def program():"]
        for kidx, nm in enumerate(names):
            lines.append(f'    with "{nm}":')
            if starts[nm] is not None:
                lines.append(f"        start = {starts[nm]}")
            if "marker" in self.features and r.random() < 0.4:
                lines.append("        " + r.choice(["hermitian", "antihermitian"]))
            # references: inputs, earlier series, products (cycle detection of the reference discards ill-founded programs)
            pool = ["A"] + [n for n in usable if n in names[:kidx]] + [p for p in products if min_user[p] <= kidx]
            if r.random() < 0.1:  # occasionally an (often ill-founded) forward reference: such programs are discarded by the reference
                pool += [n for n in usable if n in names[kidx:]] + products
            nst = r.randint(1, 3)
            for _ in range(nst):
                cond = r.choice([None, "diagonal", "offdiagonal"] if "cond" in self.features else [None])
                expr = self.expr(pool, 2, under_cond=cond)
                if cond:
                    lines.append(f"        if {cond}:")
                    lines.append(f"            {expr}")
                else:
                    lines.append(f"        {expr}")
        for p in products:
            lines.append(f'    with "{p}":')
            lines.append("        " + (r.choice(["pass", "pass", "hermitian"]) if "product_hermitian" in self.features else "pass"))
        outs = ", ".join(f'"{n}"' for n in names[-2:])
        lines.append(f"    return {outs}")
        return "\n".join(lines) + "\n", names, products

    def term(self, pool, under_cond):
        r = self.r
        x = r.choice(pool)
        t = f'"{x}"'
        c = r.random()
        if "adj" in self.features and c < 0.25:
            t += ".adj"
        elif "func" in self.features and c < 0.4:
            t = f'{r.choice(["f", "g"])}("{x}")'
        elif "func" in self.features and c < 0.5:
            t = f'{r.choice(["f", "g"])}("{x}" + "{r.choice(pool)}")'
        return t

    def expr(self, pool, depth, under_cond=None):
        r = self.r
        t = self.term(pool, under_cond)
        c = r.random()
        if depth > 0 and c < 0.45:
            op = r.choice(["+", "-"])
            sub = self.expr(pool, depth - 1, under_cond)
            if "paren" in self.features and " if " not in sub and self.r2.random() < 0.5:
                sub = f"({sub})"  # right operand that is itself a sum: the flattening must distribute the sign
            t = f"{t} {op} {sub}"
        elif "div" in self.features and c < 0.6:
            t = f"({t}) / {r.choice([2, -2, 3, -1])}"
        elif c < 0.68:
            t = f"-{t}"
        elif "ifexp" in self.features and c < 0.8:
            t = f"zero if {r.choice(['flag_t', 'flag_f', 'flags[index[0]]'])} else {t}"
        return t


def c09_generated(cfg):
    from pymablock.series import BlockSeries, zero

    rec = Rec("C09", cfg)
    dims = cfg["dims"]
    nb = len(dims)
    nparams = cfg.get("nparams", 1)
    mo = cfg["max_order"]
    features = cfg["features"]
    n_checked = n_discarded = 0
    samples = []
    for pseed in cfg["seeds"]:
        symc.reset()
        src, names, products = Gen(pseed, cfg["n_series"], cfg["n_products"], features).program()
        fn = _make_function(src, "program")
        tables = _inputs(["A"], dims, nparams, mo)

        def f(x, index):
            x = x[index] if isinstance(x, (BlockSeries, dslref.SeriesView)) else x
            return zero if x is zero else x * 2

        def g(x, index):
            if isinstance(x, (BlockSeries, dslref.SeriesView)):
                x = x[(index[1], index[0], *index[2:])]
                return zero if x is zero else symc.dagger(np.asarray(x, dtype=object))
            return zero if x is zero else -x

        scope = {"f": f, "g": g, "flag_t": True, "flag_f": False, "flags": [k % 2 == 0 for k in range(nb)]}
        if "wrappers" in features and pseed % 3 == 0:
            diag, offdiag, _ = _mask_functions(dims, list(range(nb)), pseed)
            scope.update(diag=diag, offdiag=offdiag)
        scope_lib = dict(scope, use_linear_operator=np.zeros((nb, nb), dtype=bool))
        before = len(rec.cex)
        sub = dict(cfg, source=src, program_seed=pseed)
        r_ = _compare(rec, sub, fn, tables, dims, nparams, scope_lib, scope, mo, cfg.get("schedule", "asc"), f"generated:{_classify(src)}")
        if r_ == "discarded":
            n_discarded += 1
            continue
        n_checked += 1
        if len(samples) < 2:
            samples.append(src)
    from .. import solver

    rec.sample = {"config": {k: v for k, v in cfg.items() if k != "seeds"}, "programs": n_checked, "discarded_not_well_founded": n_discarded, "example_programs": samples}
    rec.obligations.append({"name": f"{n_checked} generated programs validated ({n_discarded} discarded as not well-founded)", "verdict": "structural", "programs": n_checked})
    return rec


def _classify(src):
    """Signature class of a failing generated program (which language feature is involved)."""
    feats = []
    lines = src.splitlines()
    for k, ln in enumerate(lines):
        if ln.strip().startswith("if diagonal:") and k + 1 < len(lines) and ("f(" in lines[k + 1] or "g(" in lines[k + 1]):
            feats.append("function-under-diagonal")
    if 'start = "A' in src:
        feats.append("start-from-series")
    return "+".join(sorted(set(feats))) or "other"


# ------------------------------------------------------------------------------------------------


def configs(tier, seed):
    jobs = []
    layouts = [([1, 1], ["0", "1"]), ([1, 2], ["0", "1", "3"]), ([2, 1], ["0", "0", "2"]), ([1, 1, 1], ["0", "1", "3"])]
    if tier == "thorough":
        layouts += [([2, 2], ["0", "1", "3", "7"]), ([1, 1, 2], ["0", "1", "3", "3"])]
    for alg in ("main", "nonhermitian"):
        for dims, spec in layouts:
            nb = len(dims)
            for tbo in (True, False):
                if tbo and nb != 2:
                    continue
                cbs = list(itertools.product([True, False], repeat=nb))
                for cb in cbs:
                    for masks in ([], [b for b in range(nb) if not cb[b]]):
                        if not masks and not all(cb):
                            continue
                        if masks and tbo:
                            continue
                        for sched in ("asc", "desc", f"rand{seed + 1}"):
                            jobs.append(("vf.props.dsl", "c09_shipped", dict(shipped=True, algorithm=alg, dims=dims, spectrum=spec, two_block_optimized=tbo,
                                                                             commuting_blocks=list(cb), masks=masks, mask_seed=1, max_order=3 if sum(dims) <= 3 else 2, schedule=sched)))
        # two parameters
        jobs.append(("vf.props.dsl", "c09_shipped", dict(shipped=True, algorithm=alg, dims=[1, 1], spectrum=["0", "1"], two_block_optimized=True, commuting_blocks=[True, True],
                                                         masks=[], nparams=2, max_order=2, schedule="desc")))
    # `hermitian` on a product is a promise of the author that the product IS Hermitian (the compiled code then takes
    # the half-sum shortcut); random products do not keep that promise, so generated programs declare all products `pass`
    # (the shortcut itself is validated on the shipped algorithm's "U'† @ U'" and by C18).
    feats_all = ["start", "marker", "cond", "adj", "func", "div", "ifexp", "product3", "wrappers", "paren"]
    nprog = 40 if tier == "quick" else 400
    chunk = 5
    base = 1000
    for k in range(0, nprog, chunk):
        for dims in ([1, 1], [2, 1]):
            jobs.append(("vf.props.dsl", "c09_generated", dict(generated=True, dims=dims, max_order=2, n_series=3, n_products=2, features=feats_all,
                                                               seeds=list(range(base + k, base + k + chunk)), schedule=["asc", "desc", "rand7"][(k // chunk) % 3])))
    for dims in ([1, 1], [1, 2], [1, 1, 2]):
        for sched in ("asc", "desc", "rand3"):
            jobs.append(("vf.props.dsl", "c09_handwritten", dict(handwritten=True, program="two_inputs", dims=dims, max_order=2, schedule=sched, linear_operator=True)))
    jobs.append(("vf.props.dsl", "c09_handwritten", dict(handwritten=True, program="recurrence", dims=[1, 2], max_order=2, schedule="asc", indented_def=True)))
    for name in HANDWRITTEN:
        for dims in ([1, 1], [2, 1], [1, 1, 1]):
            for sched in ("asc", "desc", "rand5"):
                jobs.append(("vf.props.dsl", "c09_handwritten", dict(handwritten=True, program=name, dims=dims, max_order=3 if sum(dims) <= 2 else 2, schedule=sched)))
        jobs.append(("vf.props.dsl", "c09_handwritten", dict(handwritten=True, program=name, dims=[1, 1], nparams=2, max_order=2, schedule="desc")))
    # the docstring's own example program
    jobs.append(("vf.props.dsl", "c09_docstring", dict(docstring=True, dims=[1, 1], max_order=2)))
    return jobs


DOCSTRING_PROGRAM = '''def my_algorithm():
    with "B":
        start = 0
        hermitian
        if diagonal:
            "A" + f("B @ C")

    with "C":
        start = "A"
        if offdiagonal:
            "A" + "B" / 2
        "B @ C"

    with "B @ C":
        hermitian

    return "C"
'''


def c09_docstring(cfg):
    """The example program printed in the documentation of series_computation."""
    from pymablock.series import BlockSeries, zero

    rec = Rec("C09", cfg)
    dims = cfg["dims"]
    nb = len(dims)
    fn = _make_function(DOCSTRING_PROGRAM, "my_algorithm")
    tables = _inputs(["A"], dims, 1, cfg["max_order"], hermitian_names=("A",))

    def f(x, index):
        x = x[index] if isinstance(x, (BlockSeries, dslref.SeriesView)) else x
        return zero if x is zero else x * 2

    scope = {"f": f}
    scope_lib = dict(scope, use_linear_operator=np.zeros((nb, nb), dtype=bool))
    _compare(rec, dict(cfg, source=DOCSTRING_PROGRAM), fn, tables, dims, 1, scope_lib, scope, cfg["max_order"], "asc", "docstring-example:" + _classify(DOCSTRING_PROGRAM))
    rec.sample = {"config": cfg, "program": DOCSTRING_PROGRAM}
    return rec


# ------------------------------------------------------------------------------------------------
# (c) hand-written programs whose `hermitian` declarations are TRUE (products X^dagger X, X^dagger B X), `lower`, nested calls

HANDWRITTEN_INPUTS = {"two_inputs": ["A", "B"], "nested_sums": ["A", "B"]}

HANDWRITTEN = {
    "two_inputs": '''def program():
    with "C":
        "A" - "B" / 2

    with "D":
        "A" + "C @ B" + "B".adj

    with "E":
        start = 0
        hermitian
        "D @ D" / 4 + f("C") - "A".adj

    with "C @ B":
        pass

    with "D @ D":
        pass

    return "D", "E"
''',
    "hermitian_products": '''def program():
    with "X":
        start = 0
        "A"

    with "Xd":
        start = 0
        "A".adj

    with "B":
        "A" + "A".adj

    with "P2":
        "Xd @ X" / 2 + "B"

    with "P3":
        "Xd @ B @ X" - "P2"

    with "P4":
        start = 0
        "Xd @ B @ B @ X"
        if diagonal:
            f("Xd @ X")

    with "Xd @ X":
        hermitian

    with "Xd @ B @ X":
        hermitian

    with "Xd @ B @ B @ X":
        hermitian

    return "P3", "P4"
''',
    "lower_and_markers": '''def program():
    with "S":
        start = 0
        if lower:
            -"A".adj
        "A" + "A"

    with "T":
        start = "A_0"
        antihermitian
        if offdiagonal:
            "S" - g("S")
        if diagonal:
            ("S" - "S".adj) / 2

    with "R":
        hermitian
        if diagonal:
            f(g("T")) + "S @ T"
        if offdiagonal:
            "T".adj / -3

    with "S @ T":
        pass

    return "R"
''',
    "arithmetic_on_absent_terms": '''def program():
    with "Z":
        start = 0
        "A"

    with "C":
        ("Z" / 2 + "A") / 2 + "Z" / 2 / 2 - "Z".adj / 3 / 1

    with "D":
        start = 1
        "A" + "C"

    with "E":
        "D @ A" + 2 * "Z" - 3 * ("Z" + "Z") / 2

    with "D @ A":
        pass

    return "C", "D", "E"
''',
    "adjoint_of_identity_start": '''def program():
    with "U":
        start = 1
        "A"

    with "Ud":
        "U".adj

    with "W":
        start = 0
        "Ud @ U" + "A" - "Ud" / 2

    with "Ud @ U":
        pass

    return "Ud", "W"
''',
    "recurrence": '''def program():
    with "W":
        start = 0
        hermitian
        "Vd @ V" / -2

    with "V":
        start = 0
        "A" + "W" + "V @ W" / 3

    with "Vd":
        start = 0
        "A".adj + "W" + "V @ W".adj / 3

    with "Vd @ V":
        hermitian

    with "V @ W":
        pass

    return "V", "W"
''',
    "nested_sums": '''def program():
    # sums and differences whose RIGHT operand is itself a parenthesised sum (the sum flattening must distribute the sign)
    with "C":
        "A" - ("B" + "A".adj)

    with "D":
        "A" - ("B" - "C") - "B"

    with "E":
        start = 0
        ("A" + "B") - ("C" - ("D" - "A" / 2)) + ("B" - "D @ C")

    with "F":
        -("A" + "B") - (-"C" + ("D" + "E")) - f("A" - ("B" + "C"))

    with "D @ C":
        pass

    return "E", "F"
''',
}


def c09_handwritten(cfg):
    from pymablock.series import BlockSeries, zero

    rec = Rec("C09", cfg)
    dims = cfg["dims"]
    nb = len(dims)
    src = HANDWRITTEN[cfg["program"]]
    fn = _make_function(src, "program", indented=bool(cfg.get("indented_def")))
    tables = _inputs(HANDWRITTEN_INPUTS.get(cfg["program"], ["A"]), dims, cfg.get("nparams", 1), cfg["max_order"])

    def f(x, index):
        x = x[index] if isinstance(x, (BlockSeries, dslref.SeriesView)) else x
        return zero if x is zero else x * 2

    def g(x, index):
        if isinstance(x, (BlockSeries, dslref.SeriesView)):
            x = x[(index[1], index[0], *index[2:])]
            return zero if x is zero else symc.dagger(np.asarray(x, dtype=object))
        return zero if x is zero else -x

    scope = {"f": f, "g": g}
    ulo = np.zeros((nb, nb), dtype=bool)
    if cfg.get("linear_operator"):
        ulo[-1, -1] = True  # implicit-mode wiring: the last diagonal block is computed with LinearOperators
    scope_lib = dict(scope, use_linear_operator=ulo)
    r_ = _compare(rec, dict(cfg, source=src), fn, tables, dims, cfg.get("nparams", 1), scope_lib, scope, cfg["max_order"], cfg.get("schedule", "asc"), f"handwritten:{cfg['program']}")
    if r_ == "discarded":
        rec.guard("handwritten_program_is_well_founded", False, "the reference found a cycle")
    from .. import solver

    rec.guard("assumptions_sat", solver.assumptions_sat() == "sat")
    rec.sample = {"config": cfg, "program": src, "programs": 1}
    return rec
