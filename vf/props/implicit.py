"""C06: implicit mode (incomplete eigenvectors, direct solver) equals the explicit computation.

Numeric, exactly representable H_0 and eigenvectors; SYMBOLIC perturbation; scipy's sparse LU (`factorized`) is
replaced by exact rational elimination (contract: A solve(b) = b).  The reference is the complete-basis computation
in the eigenbasis (carrier B, exact callback solver), embedded by the complement basis.
"""
from __future__ import annotations

from fractions import Fraction

import numpy as np

from .. import bd, symc
from ..engine import Rec
from ..symc import SymC

NAMES = ["Ht", "U", "Uinv"]
TOL = 1e-7

# unitaries with dyadic entries (exact in floats)
H2 = np.array([[1, 1], [1, -1]]) / 2  # NOT unitary (norm 1/2) - only used inside Kronecker products below
HAD4 = np.array([[1, 1, 1, 1], [1, 1, -1, -1], [1, -1, 1, -1], [1, -1, -1, 1]]) / 2
CPLX2 = np.array([[1 + 1j, 1 - 1j], [1 - 1j, 1 + 1j]]) / 2


def basis(kind, n):
    """n x n unitary with exactly representable entries."""
    Q = np.eye(n, dtype=complex)
    if kind == "identity":
        return Q.real
    if kind == "perm":
        return np.eye(n)[:, ::-1].copy()
    if kind == "hadamard":
        assert n >= 4
        Q[:4, :4] = HAD4
        return Q.real
    if kind == "complex":
        Q[:2, :2] = CPLX2
        if n >= 4:
            Q[2:4, 2:4] = CPLX2.conj()
        return Q
    if kind == "complex_hadamard":
        assert n >= 4
        Q[:4, :4] = HAD4
        D = np.eye(n, dtype=complex)
        D[:2, :2] = CPLX2
        return D @ Q
    raise KeyError(kind)


def _cnum(x):
    re, im = bd.parse_number(x)
    return complex(float(re), float(im))


def _csym(x):
    re, im = bd.parse_number(x)
    return SymC(symc._rv(re), symc._rv(im))


def basis_pair(kind, n):
    """(R, L) with L^dagger R = 1 and exactly representable entries; unitary kinds have L = R."""
    if kind == "rotation_pair":
        # real non-symmetric H_0 = [[0,-1],[1,0]] (+) diag(...): eigenvalues +-i with eigenvectors (1, -+i); biorthogonal
        # normalisation L = R/2 keeps all entries exactly representable
        R = np.eye(n, dtype=complex)
        R[:2, :2] = np.array([[1, 1], [-1j, 1j]])
        L = R.copy()
        L[:2, :2] = R[:2, :2] / 2
        assert np.array_equal(L.conj().T @ R, np.eye(n))
        return R, L
    if kind in ("triangular", "triangular_complex"):
        # eigenvectors of a triangular (one-way coupled) H_0: the first right vector is (2, 1, 0, ...), its dual is (0, 1, 0, ...),
        # i.e. the left vector VANISHES on the row where the right vector is largest (the gauge row chosen from the right kernel)
        R = np.eye(n, dtype=complex)
        R[:2, :2] = np.array([[2, 1], [1, 0]]) if kind == "triangular" else np.array([[2j, 1], [1, 0]])
        Ri = np.linalg.inv(R)
        Ri = np.round(Ri * 1024) / 1024
        assert np.array_equal(Ri @ R, np.eye(n))
        L = Ri.conj().T.copy()
        if kind == "triangular":
            return R.real.copy(), L.real.copy()
        return R, L
    if kind in ("biorth", "biorth_complex"):
        S = np.eye(n, dtype=complex)
        for a in range(n - 1):
            S[a, a + 1] = 0.5
        if kind == "biorth_complex":
            S[0, 1] = 0.5j
            S[0, n - 1] = S[0, n - 1] + 0.25
        Si = np.linalg.inv(S)
        Si = np.round(Si * 1024) / 1024  # dyadic entries: exact after rounding away float noise
        assert np.array_equal(Si @ S, np.eye(n)), "basis pair is not exactly biorthogonal"
        if kind == "biorth":
            return S.real.copy(), Si.conj().T.real.copy()
        return S, Si.conj().T.copy()
    Q = basis(kind, n)
    return Q, Q


class SingularSystem(Exception):
    pass


def exact_factorized(A):
    """Stub for scipy.sparse.linalg.factorized: exact rational inverse (contract A @ solve(b) == b)."""
    import sympy

    M = A.toarray() if hasattr(A, "toarray") else np.asarray(A)
    n = M.shape[0]

    def q(z):
        z = complex(z)
        re, im = Fraction(z.real), Fraction(z.imag)
        return sympy.Rational(re.numerator, re.denominator) + sympy.I * sympy.Rational(im.numerator, im.denominator)

    try:
        Minv = sympy.Matrix(n, n, lambda i, j: q(M[i, j])).inv()
    except Exception as e:  # scipy's LU would report "Factor is exactly singular" / return garbage
        raise SingularSystem(f"the library handed a singular system to the sparse LU: {e}") from e
    inv = np.empty((n, n), dtype=object)
    for i in range(n):
        for j in range(n):
            re, im = Minv[i, j].as_real_imag()
            inv[i, j] = SymC(symc._rv(Fraction(int(re.p), int(re.q))), symc._rv(Fraction(int(im.p), int(im.q))))

    def solve(b):
        b = np.asarray(b, dtype=object)
        return symc.mm(inv, b.reshape(-1, 1))[:, 0] if b.ndim == 1 else symc.mm(inv, b)

    solve.calls = 0
    return solve


def c06(cfg):
    import pymablock.linalg as PL
    from pymablock import block_diagonalize
    from pymablock.series import one, zero
    from scipy import sparse
    from scipy.sparse.linalg import LinearOperator

    rec = Rec("C06", cfg)
    herm = cfg.get("hermitian", True)
    n = cfg["n"]
    explicit = cfg["explicit"]  # sizes of the explicit blocks
    k = sum(explicit)
    nB = n - k
    mo = cfg["max_order"]
    Q, Lq = basis_pair(cfg["basis"], n)
    biorth = Lq is not Q
    assert not (biorth and herm), "biorthogonal bases are a non-Hermitian-mode feature"
    Efl = np.array([_cnum(x) for x in cfg["spectrum"]])
    if np.allclose(Efl.imag, 0):
        Efl = Efl.real
    H0_lab = (Q * Efl) @ Lq.conj().T
    if np.allclose(np.asarray(H0_lab).imag, 0):
        H0_lab = np.asarray(H0_lab).real
    assert np.array_equal(H0_lab @ Q, Q * Efl), "H_0 / eigenvectors not exactly representable"
    H1 = symc.hermitian("h_", n) if herm else symc.general("h_", n)
    H1lib = symc.SymArray(H1)
    off = np.cumsum([0] + explicit)
    vecs = [Q[:, off[b] : off[b + 1]].copy() for b in range(len(explicit))]
    if biorth:
        vecs = [(v, Lq[:, off[b] : off[b + 1]].copy()) for b, v in enumerate(vecs)]
    elif cfg.get("pairs"):
        vecs = [(v, v.copy()) for v in vecs]
    sig = f"implicit:herm={herm}:n={n}:explicit={'|'.join(map(str, explicit))}:basis={cfg['basis']}:h0={cfg.get('h0_format', 'dense')}"
    rec.sample = {"config": cfg}
    h0_in = sparse.csr_array(H0_lab) if cfg.get("h0_format") == "sparse" else H0_lab
    old = PL.factorized
    PL.factorized = exact_factorized
    try:
        try:
            series = block_diagonalize([h0_in, H1lib], subspace_eigenvectors=vecs, hermitian=herm, **({"fully_diagonalize": tuple(cfg["fd"])} if cfg.get("fd") else {}))
            nb = len(explicit) + 1
            QB = symc.const(Q[:, k:])
            QBd = symc.dagger(symc.const(Lq[:, k:]))
            lib = {}
            for w in range(3):
                for o in range(mo + 1):
                    for i in range(nb):
                        for j in range(nb):
                            v = series[w][(i, j, o)]
                            if isinstance(v, LinearOperator):
                                v = np.asarray(v @ np.eye(n), dtype=object)
                            lib[(w, i, j, o)] = v
        except symc.SymbolicDivisionByZero:
            raise
        except SingularSystem as e:
            # replay with the real LU: does the implicit result still agree with the complete-basis result?
            try:
                ok, detail = _numeric_replay(cfg, {}, 1, 0, len(explicit), 1)
            except Exception as e2:
                ok, detail = True, {"raised_with_real_LU": f"{type(e2).__name__}: {e2}"[:200]}
            rec.direct_violation("implicit mode builds a singular linear system", sig + ":singular-system", dict(detail, stub=str(e)[:200]), reproduced=ok)
            return rec
        except Exception as e:
            from .herm import library_exception_info

            is_lib, where = library_exception_info(e)
            if not is_lib and "scipy" not in where:
                raise
            rec.direct_violation("implicit mode raised on a well-posed input", sig + f":raised-{type(e).__name__}", {"exception": f"{type(e).__name__}: {e}"[:400], "where": where})
            return rec
    finally:
        PL.factorized = old
    # reference: complete eigenbasis, carrier B
    sizes = list(explicit) + [nB]
    Qs = symc.const(Q)
    H1_eig = symc.mm(symc.mm(symc.dagger(symc.const(Lq)), H1), Qs)
    E = [_csym(x) for x in cfg["spectrum"]]
    refcfg = dict(carrier="B", hermitian=herm, sizes=sizes, max_order=mo, fd=cfg.get("fd"))
    P = bd.Problem(refcfg, E=E, classes=None, terms_data={(1,): H1_eig})
    if cfg.get("fd"):
        # custom solvers cannot be combined with fully_diagonalize: use carrier A when the gaps allow, else skip
        P.carrier = "C"  # exact sympy mode handles fully_diagonalize with arbitrary rational gaps
    ref_series = P.run()
    dimsB = nB

    def embed(v, i, j):
        """explicit-basis block -> what implicit mode returns (implicit index = last)."""
        last = len(sizes) - 1
        if i == last and j == last:
            return symc.mm(symc.mm(QB, v), QBd)
        if j == last:
            return symc.mm(v, QBd)
        if i == last:
            return symc.mm(QB, v)
        return v

    def replay_for(w, i, j, o):
        def replay(model):
            return _numeric_replay(cfg, model, w, i, j, o)

        return replay

    bad = set()
    last = len(sizes) - 1
    for o in range(mo + 1):
        for w in range(3):
            for i in range(len(sizes)):
                for j in range(len(sizes)):
                    if (w,) in bad:
                        continue
                    v = lib[(w, i, j, o)]
                    r = ref_series[w][(i, j, o)]
                    if r is one and v is one:
                        rec.discharged(f"{NAMES[w]}[{i},{j},{o}] identity sentinel", "structural")
                        continue
                    rd = P.get(ref_series[w], i, j, (o,))
                    want = embed(rd, i, j)
                    if v is zero:
                        got = symc.zeros(*want.shape)
                    elif v is one:
                        got = symc.mm(QB, QBd) if (i == last and j == last) else symc.eye(sizes[i])
                        if i == last and j == last:
                            want = symc.mm(QB, QBd)
                    else:
                        got = np.asarray(v, dtype=object)
                    if got.shape != want.shape:
                        rec.direct_violation(f"{NAMES[w]}[{i},{j},{o}] shape {got.shape} != {want.shape}", sig + ":shape", {})
                        bad.add((w,))
                        continue
                    kind = "explicit" if (i != last and j != last) else "implicit"
                    x = rec.oblige(f"{NAMES[w]}[{i},{j},{o}] {kind} block", got, want, sig=sig + f":{NAMES[w]}:{kind}", replay=replay_for(w, i, j, o))
                    if x == "sat":
                        bad.add((w,))
                    if x != "structural" and o >= 1:
                        rec.nontrivial = True
    from .. import solver

    rec.guard("assumptions_sat", solver.assumptions_sat() == "sat")
    return rec


def c16_direct(cfg):
    """solve_sylvester_direct / direct_greens_function (Python part + exact LU stub): residual and range conditions."""
    import pymablock.linalg as PL
    from pymablock.block_diagonalization import solve_sylvester_direct
    from pymablock.linalg import direct_greens_function
    from scipy import sparse

    rec = Rec("C16", cfg)
    herm = cfg.get("hermitian", True)
    n, explicit = cfg["n"], cfg["explicit"]
    k = sum(explicit)
    Q, Lq = basis_pair(cfg["basis"], n)
    biorth = Lq is not Q
    Efl = np.array([_cnum(x) for x in cfg["spectrum"]])
    if np.allclose(Efl.imag, 0):
        Efl = Efl.real
    H0 = (Q * Efl) @ Lq.conj().T
    if np.allclose(np.asarray(H0).imag, 0):
        H0 = np.asarray(H0).real
    off = np.cumsum([0] + explicit)
    vecs = [Q[:, off[b] : off[b + 1]].copy() for b in range(len(explicit))]
    if biorth:
        vecs = [(v, Lq[:, off[b] : off[b + 1]].copy()) for b, v in enumerate(vecs)]
    sig = f"direct:herm={herm}:basis={cfg['basis']}:explicit={'|'.join(map(str, explicit))}"
    rec.sample = {"config": cfg}
    H0s = symc.const(H0)
    Rk, Lk = symc.const(Q[:, :k]), symc.const(Lq[:, :k])
    Pd = symc.eye(n) - symc.mm(Rk, symc.dagger(Lk))
    last = len(explicit)
    old = PL.factorized
    PL.factorized = exact_factorized
    try:
      try:
        solve = None
        solve = solve_sylvester_direct(sparse.csr_array(H0) if cfg.get("h0_format") == "sparse" else sparse.csr_array(H0), list(vecs), nonhermitian=not herm)
        for b in range(len(explicit)):
            Eb = [_csym(x) for x in cfg["spectrum"][off[b] : off[b + 1]]]
            D = symc.zeros(len(Eb), len(Eb))
            for a in range(len(Eb)):
                D[a, a] = Eb[a]
            # right-implicit orientation (b, last)
            Y = symc.general(f"y{b}r_", len(Eb), n)
            V = np.asarray(solve(np.array(Y, dtype=object), (b, last, 1)), dtype=object)
            x = rec.oblige(f"right-implicit ({b},{last}) residual", symc.mm(D, V) - symc.mm(V, H0s), symc.mm(Y, Pd), sig=sig + ":right-residual",
                           replay=lambda m: (True, {"note": "exact identity of the solver output with the exact-LU stub"}))
            rec.oblige(f"right-implicit ({b},{last}) range V P = V", symc.mm(V, Pd), V, sig=sig + ":right-range", replay=lambda m: (True, {}))
            if x != "structural":
                rec.nontrivial = True
            if not herm:
                Yl = symc.general(f"y{b}l_", n, len(Eb))
                Vl = np.asarray(solve(np.array(Yl, dtype=object), (last, b, 1)), dtype=object)
                rec.oblige(f"left-implicit ({last},{b}) residual", symc.mm(H0s, Vl) - symc.mm(Vl, D), symc.mm(Pd, Yl), sig=sig + ":left-residual", replay=lambda m: (True, {}))
                rec.oblige(f"left-implicit ({last},{b}) range P V = V", symc.mm(Pd, Vl), Vl, sig=sig + ":left-range", replay=lambda m: (True, {}))
        # direct_greens_function at an eigenvalue with its (possibly degenerate) kernel
        groups = {}
        for idx_, e in enumerate(cfg["spectrum"][:k]):
            groups.setdefault(e, []).append(idx_)
        for e, idxs in groups.items():
            kv, lkv = Q[:, idxs].copy(), Lq[:, idxs].copy()
            en = _cnum(e)
            gf = direct_greens_function(sparse.csr_array(H0), en.real if en.imag == 0 else en, kernel_vectors=kv, left_kernel_vectors=lkv if biorth else None)
            v = symc.general("g_", n, 1)[:, 0]
            xsol = np.asarray(gf(np.array(v, dtype=object)), dtype=object)
            Pk = symc.eye(n) - symc.mm(symc.const(kv), symc.dagger(symc.const(lkv)))
            Em = symc.eye(n) * _csym(e) - H0s
            rec.oblige(f"greens function E={e}: (E-H) x = P v", symc.mm(Em, xsol.reshape(-1, 1)), symc.mm(Pk, v.reshape(-1, 1)), sig=sig + ":greens-residual", replay=lambda m: (True, {}))
            rec.oblige(f"greens function E={e}: P x = x", symc.mm(Pk, xsol.reshape(-1, 1)), xsol.reshape(-1, 1), sig=sig + ":greens-range", replay=lambda m: (True, {}))
      except SingularSystem as e:
        rec.direct_violation("direct solver builds a singular linear system (E - H with the kernel constraints must be regular)", sig + ":singular-system", {"stub": str(e)[:300]})
    finally:
        PL.factorized = old
    from .. import solver

    rec.guard("assumptions_sat", solver.assumptions_sat() == "sat")
    return rec


def _numeric_replay(cfg, model, w, i, j, o):
    """Concrete replay with the REAL sparse LU (no stub): implicit vs complete-basis run, plain numpy."""
    (a, b), = _numeric_pairs(cfg, model, [(w, i, j, o)])
    err = float(np.max(np.abs(a - b)))
    return err > TOL * max(1.0, float(np.max(np.abs(b)))), {"element": [NAMES[w], i, j, o], "max_abs_error": err}


def _numeric_pairs(cfg, model, keys, real_h1=False):
    """[(implicit-mode value, embedded complete-basis value)] for the requested elements, real sparse LU, typed numpy inputs."""
    from pymablock import block_diagonalize
    from pymablock.series import one, zero
    from scipy import sparse
    from scipy.sparse.linalg import LinearOperator

    herm = cfg.get("hermitian", True)
    n, explicit = cfg["n"], cfg["explicit"]
    k = sum(explicit)
    Q, Lq = basis_pair(cfg["basis"], n)
    biorth = Lq is not Q
    Efl = np.array([_cnum(x) for x in cfg["spectrum"]])
    if np.allclose(Efl.imag, 0):
        Efl = Efl.real
    H0_lab = (Q * Efl) @ Lq.conj().T
    if np.allclose(np.asarray(H0_lab).imag, 0):
        H0_lab = np.asarray(H0_lab).real
    H1 = np.zeros((n, n), dtype=complex)
    for a in range(n):
        for b in range(n):
            key = f"h_{min(a, b)}{max(a, b)}" if herm else f"h_{a}{b}"
            re = float(model.get(key + "_r", 0))
            im = float(model.get(key + "_i", 0))
            H1[a, b] = re + 1j * im if (not herm or a <= b) else re - 1j * im
    if cfg.get("h0_dtype"):
        # single-precision (or integer) H_0 and eigenvectors next to a double-precision perturbation; all values are small dyadic numbers
        dt = np.dtype(cfg["h0_dtype"])
        H0_lab = np.asarray(H0_lab).astype(dt if not np.iscomplexobj(H0_lab) else {"float32": "complex64"}.get(dt.name, "complex128"))
        if dt.kind == "f":
            Q = Q.astype(dt if not np.iscomplexobj(Q) else "complex64")
            Lq = Q if not biorth else Lq.astype(dt if not np.iscomplexobj(Lq) else "complex64")
    if real_h1:
        H1 = np.ascontiguousarray(H1.real)
    if cfg.get("h1_container"):
        # every documented container of a perturbation: sparse arrays and the legacy sparse matrices
        H1 = getattr(sparse, cfg["h1_container"])(H1)
    off = np.cumsum([0] + explicit)
    vecs = [Q[:, off[b] : off[b + 1]] for b in range(len(explicit))]
    if biorth:
        vecs = [(v, Lq[:, off[b] : off[b + 1]]) for b, v in enumerate(vecs)]
    h0_in = sparse.csr_array(H0_lab) if cfg.get("h0_format") == "sparse" else H0_lab
    kw = {"fully_diagonalize": tuple(cfg["fd"])} if cfg.get("fd") else {}
    imp = block_diagonalize([h0_in, H1], subspace_eigenvectors=vecs, hermitian=herm, **kw, **({"direct_solver": False} if cfg.get("kpm") else {}))
    full = block_diagonalize([h0_in, H1], subspace_eigenvectors=vecs + [(Q[:, k:], Lq[:, k:]) if biorth else Q[:, k:]], hermitian=herm, **kw)
    last = len(explicit)
    QB = Q[:, k:]
    LB = Lq[:, k:]

    def dense(v, d0, d1):
        if v is zero:
            return np.zeros((d0, d1), dtype=complex)
        if v is one:
            return np.eye(d0, dtype=complex)
        if isinstance(v, LinearOperator):
            return np.asarray(v @ np.eye(v.shape[1]), dtype=complex)
        return np.asarray(v.toarray() if hasattr(v, "toarray") else v, dtype=complex)

    sizes = list(explicit) + [n - k]
    out = []
    for (w, i, j, o) in keys:
        a = imp[w][(i, j, o)]
        b = dense(full[w][(i, j, o)], sizes[i], sizes[j])
        if i == last and j == last:
            b = QB @ b @ LB.conj().T
            a = QB @ LB.conj().T if a is one else dense(a, n, n)
        elif j == last:
            b = b @ LB.conj().T
            a = dense(a, sizes[i], n)
        elif i == last:
            b = QB @ b
            a = dense(a, n, sizes[j])
        else:
            a = dense(a, sizes[i], sizes[j])
        out.append((a, b))
    return out


def c06_typed(cfg):
    """Typed twin of C06 (concrete, declared): the same public calls with float64 / complex128 numpy and scipy.sparse inputs and the REAL
    sparse LU at one dyadic point per configuration: implicit mode == complete-basis run embedded by the complement basis, every element."""
    rec = Rec("C06", cfg)
    herm = cfg.get("hermitian", True)
    n = cfg["n"]
    vals = [Fraction(1), Fraction(-1), Fraction(2), Fraction(1, 2), Fraction(-3, 2), Fraction(3), Fraction(-2), Fraction(1, 4)]
    model = {}
    cnt = 0
    for a in range(n):
        for b in range(n):
            key = f"h_{min(a, b)}{max(a, b)}" if herm else f"h_{a}{b}"
            for part in ("_r", "_i"):
                if key + part not in model:
                    model[key + part] = Fraction(0) if (part == "_i" and a == b and herm) else vals[cnt % len(vals)]
                    cnt += 1
    sizes = list(cfg["explicit"]) + [n - sum(cfg["explicit"])]
    keys = [(w, i, j, o) for o in range(cfg["max_order"] + 1) for w in range(3) for i in range(len(sizes)) for j in range(len(sizes))]
    sig = f"implicit-typed:herm={herm}:basis={cfg['basis']}:real_h1={bool(cfg.get('real_h1'))}:h1={cfg.get('h1_container', 'ndarray')}" + (":kpm" if cfg.get("kpm") else "")
    try:
        pairs = _numeric_pairs(cfg, model, keys, real_h1=bool(cfg.get("real_h1")))
    except Exception as e:  # noqa: BLE001
        from .herm import library_exception_info

        is_lib, where = library_exception_info(e, pure_inputs=True)
        if not is_lib:
            raise
        rec.direct_violation("library raised in implicit mode on typed input", sig + f":raised-{type(e).__name__}", {"exception": f"{type(e).__name__}: {e}"[:300], "where": where}, reproduced=True)
        return rec
    worst, bad = 0.0, None
    for key, (a, b) in zip(keys, pairs):
        err = float(np.max(np.abs(a - b))) if a.size else 0.0
        sc = max(1.0, float(np.max(np.abs(b))) if b.size else 1.0)
        worst = max(worst, err / sc)
        if err > (1e-3 if cfg.get("kpm") else 1e-4 if cfg.get("h0_dtype") == "float32" else 1e-8) * sc and bad is None:
            bad = dict(element=[NAMES[key[0]], *key[1:]], max_abs_error=err, scale=sc)
    if bad:
        rec.direct_violation("implicit mode differs from the complete-basis run on typed input (real sparse LU)", sig, bad, reproduced=True)
    else:
        rec.discharged(f"typed run, real sparse LU: all {len(keys)} elements agree (max rel. dev. {worst:.1e})", "confirmed")
    rec.nontrivial = True
    rec.sample = {"config": cfg}
    return rec


def configs(tier):
    cfgs = []
    for herm in (True, False):
        # one explicit block
        cfgs.append(dict(hermitian=herm, n=3, explicit=[1], basis="identity", spectrum=["0", "1", "3"], max_order=3))
        cfgs.append(dict(hermitian=herm, n=3, explicit=[1], basis="perm", spectrum=["0", "1", "3"], max_order=3, h0_format="sparse"))
        cfgs.append(dict(hermitian=herm, n=4, explicit=[1], basis="hadamard", spectrum=["0", "1", "3", "7"], max_order=3))
        cfgs.append(dict(hermitian=herm, n=4, explicit=[2], basis="hadamard", spectrum=["0", "0", "3", "7"], max_order=3))  # degenerate explicit level
        cfgs.append(dict(hermitian=herm, n=4, explicit=[2], basis="complex", spectrum=["0", "2", "3", "7"], max_order=3))
        cfgs.append(dict(hermitian=herm, n=4, explicit=[2], basis="complex_hadamard", spectrum=["1", "1", "4", "6"], max_order=2))
        # degenerate explicit level whose eigenvectors are NOT adjacent in the supplied basis
        cfgs.append(dict(hermitian=herm, n=4, explicit=[3], basis="hadamard", spectrum=["2", "1", "2", "7"], max_order=2))
        cfgs.append(dict(hermitian=herm, n=5, explicit=[3], basis="complex_hadamard", spectrum=["2", "1", "2", "7", "4"], max_order=2))
        # full diagonalisation of an explicit block in implicit mode (explicit-explicit and in-block gaps dyadic)
        cfgs.append(dict(hermitian=herm, n=4, explicit=[2], basis="hadamard", spectrum=["0", "2", "3", "7"], max_order=3, fd=[0]))
        cfgs.append(dict(hermitian=herm, n=4, explicit=[2, 1], basis="complex", spectrum=["0", "2", "1", "7"], max_order=2, fd=[0]))
        # explicit subspace with a genuinely complex projector (P^T != P^dagger)
        cfgs.append(dict(hermitian=herm, n=3, explicit=[1], basis="complex", spectrum=["0", "2", "3"], max_order=3))
        cfgs.append(dict(hermitian=herm, n=4, explicit=[1], basis="complex_hadamard", spectrum=["0", "2", "3", "7"], max_order=3))
        cfgs.append(dict(hermitian=herm, n=4, explicit=[1, 1], basis="complex_hadamard", spectrum=["0", "2", "3", "7"], max_order=2, h0_format="sparse"))
        # two explicit blocks (explicit-explicit gaps dyadic: handled by the float diagonal solver)
        cfgs.append(dict(hermitian=herm, n=4, explicit=[1, 1], basis="complex", spectrum=["0", "2", "3", "7"], max_order=3))
        cfgs.append(dict(hermitian=herm, n=4, explicit=[1, 2], basis="hadamard", spectrum=["0", "1", "2", "7"], max_order=2, h0_format="sparse"))
        if not herm:
            # genuinely biorthogonal explicit bases (R != L), real and complex, one and two explicit blocks, degenerate level
            # real non-symmetric H_0 with a complex-conjugate pair, one member explicit and its partner implicit
            cfgs.append(dict(hermitian=False, n=3, explicit=[1], basis="rotation_pair", spectrum=["1j", "-1j", "3"], max_order=3))
            cfgs.append(dict(hermitian=False, n=4, explicit=[1, 1], basis="rotation_pair", spectrum=["1j", "-1j", "3", "1"], max_order=2, h0_format="sparse"))
            cfgs.append(dict(hermitian=False, n=3, explicit=[1], basis="biorth", spectrum=["0", "1", "3"], max_order=3))
            cfgs.append(dict(hermitian=False, n=3, explicit=[1], basis="triangular", spectrum=["0", "2", "3"], max_order=3))
            cfgs.append(dict(hermitian=False, n=4, explicit=[1, 1], basis="triangular_complex", spectrum=["1", "3", "2", "5"], max_order=2))
            cfgs.append(dict(hermitian=False, n=3, explicit=[1], basis="biorth_complex", spectrum=["0", "2", "3"], max_order=3))
            cfgs.append(dict(hermitian=False, n=4, explicit=[2], basis="biorth_complex", spectrum=["1", "1", "4", "6"], max_order=2))
            cfgs.append(dict(hermitian=False, n=4, explicit=[1, 1], basis="biorth", spectrum=["0", "2", "3", "7"], max_order=2, h0_format="sparse"))
            cfgs.append(dict(hermitian=False, n=3, explicit=[1], basis="identity", spectrum=["0", "1", "3"], max_order=3, pairs=True))
            cfgs.append(dict(hermitian=False, n=4, explicit=[2], basis="complex", spectrum=["0", "2", "3", "7"], max_order=2, pairs=True))
        if tier == "thorough":
            cfgs.append(dict(hermitian=herm, n=5, explicit=[2], basis="complex_hadamard", spectrum=["0", "2", "3", "7", "12"], max_order=3))
            cfgs.append(dict(hermitian=herm, n=5, explicit=[1, 1], basis="hadamard", spectrum=["0", "1", "3", "7", "12"], max_order=3))
            cfgs.append(dict(hermitian=herm, n=4, explicit=[2], basis="complex", spectrum=["0", "2", "3", "7"], max_order=4))
    jobs = [("vf.props.implicit", "c06", c) for c in cfgs]
    # typed twin: every configuration once with complex128 H_1 and (real bases only) once with float64 H_1, real sparse LU
    for c in cfgs:
        if c.get("pairs"):
            continue
        jobs.append(("vf.props.implicit", "c06_typed", dict(c, _job="typed")))
        if c["basis"] in ("identity", "perm", "hadamard", "biorth", "rotation_pair"):
            jobs.append(("vf.props.implicit", "c06_typed", dict(c, _job="typed", real_h1=True)))
    # KPM solver with default options: a smoke check only (runs, and agrees with the complete-basis result to 1e-3); its accuracy
    # claim is not applicable to this technique (DESIGN section 4)
    jobs.append(("vf.props.implicit", "c06_typed", dict(hermitian=True, n=4, explicit=[1], basis="hadamard", spectrum=["0", "1", "3", "7"], max_order=2, _job="typed", kpm=True)))
    jobs.append(("vf.props.implicit", "c06_typed", dict(hermitian=True, n=4, explicit=[1, 1], basis="complex", spectrum=["0", "2", "3", "7"], max_order=2, _job="typed", kpm=True)))
    # dtype mixtures: single-precision or integer H_0 with a double-precision perturbation
    for dt in ("float32", "int64"):
        jobs.append(("vf.props.implicit", "c06_typed", dict(hermitian=True, n=4, explicit=[1], basis="identity", spectrum=["0", "1", "3", "7"], max_order=2, _job="typed", h0_dtype=dt)))
        jobs.append(("vf.props.implicit", "c06_typed", dict(hermitian=False, n=4, explicit=[1, 1], basis="perm", spectrum=["0", "2", "3", "7"], max_order=2, _job="typed", h0_dtype=dt, h0_format="sparse")))
    jobs.append(("vf.props.implicit", "c06_typed", dict(hermitian=True, n=4, explicit=[2], basis="hadamard", spectrum=["0", "0", "3", "7"], max_order=2, _job="typed", h0_dtype="float32")))
    for c in cfgs:
        if c.get("pairs") or c["max_order"] < 3 and len(c["explicit"]) < 2 and not c.get("fd"):
            continue
        for cont in ("csr_array", "csr_matrix", "coo_matrix"):
            jobs.append(("vf.props.implicit", "c06_typed", dict(c, _job="typed", h1_container=cont)))
    return jobs


def configs_c16_direct(tier):
    cfgs = []
    for herm in (True, False):
        cfgs.append(dict(hermitian=herm, n=3, explicit=[1], basis="identity", spectrum=["0", "1", "3"], _job="direct"))
        cfgs.append(dict(hermitian=herm, n=4, explicit=[2], basis="hadamard", spectrum=["0", "0", "3", "7"], _job="direct"))
        cfgs.append(dict(hermitian=herm, n=4, explicit=[1, 1], basis="complex_hadamard", spectrum=["0", "2", "3", "7"], _job="direct"))
        cfgs.append(dict(hermitian=herm, n=3, explicit=[1], basis="complex", spectrum=["0", "2", "3"], _job="direct"))
        cfgs.append(dict(hermitian=herm, n=4, explicit=[3], basis="hadamard", spectrum=["2", "1", "2", "7"], _job="direct"))
        cfgs.append(dict(hermitian=herm, n=5, explicit=[3, 1], basis="complex_hadamard", spectrum=["2", "1", "2", "4", "7"], _job="direct"))
        if not herm:
            cfgs.append(dict(hermitian=False, n=3, explicit=[1], basis="rotation_pair", spectrum=["1j", "-1j", "3"], _job="direct"))
            cfgs.append(dict(hermitian=False, n=4, explicit=[2], basis="rotation_pair", spectrum=["1j", "-1j", "3", "1"], _job="direct"))
            cfgs.append(dict(hermitian=False, n=3, explicit=[1], basis="biorth", spectrum=["0", "1", "3"], _job="direct"))
            cfgs.append(dict(hermitian=False, n=3, explicit=[1], basis="triangular", spectrum=["0", "2", "3"], _job="direct"))
            cfgs.append(dict(hermitian=False, n=4, explicit=[2], basis="triangular_complex", spectrum=["1", "1", "2", "5"], _job="direct"))
            cfgs.append(dict(hermitian=False, n=4, explicit=[2], basis="biorth_complex", spectrum=["1", "1", "4", "6"], _job="direct"))
            cfgs.append(dict(hermitian=False, n=4, explicit=[1, 2], basis="biorth_complex", spectrum=["0", "2", "3", "7"], _job="direct"))
    return [("vf.props.implicit", "c16_direct", c) for c in cfgs]
