"""C20: ill-posed problems are rejected (ValueError/TypeError/NotImplementedError) no later than first use;
accepted well-posed numeric inputs give finite elements.

Symbolic part: the ill-posedness is embedded at an enumerated position of an otherwise symbolic problem and the real
code is executed; "reject or be right": if nothing is raised the returned elements must still satisfy C01/C05
(decided by z3), and no division by an identically zero quantity may happen.
Numeric part: exhaustive concrete enumeration of a finite integer domain (spectra in {0,1,2}^N x block assignments x
fully_diagonalize variants x dense/sparse) - this sub-claim concerns compiled float kernels which no solver reaches.
"""
from __future__ import annotations

import itertools
import warnings

import numpy as np

from .. import bd, symc
from .. import sympy_bridge as sb
from ..engine import Rec
from ..symc import SymC

OK_EXC = (ValueError, TypeError, NotImplementedError)


class _Garbage(Exception):
    pass


def _expect_raises(rec, name, sig, fn, when="call", must=False, pure=False):
    """fn() must raise one of OK_EXC. Records the obligation; with must=True a silent acceptance is recorded as a violation
    (a UserWarning "cannot confirm ... is zero" for sympy inputs counts as not silent, by the library's design)."""
    try:
        with warnings.catch_warnings(record=True) as w:
            warnings.simplefilter("always")
            out = fn()
    except OK_EXC as e:
        rec.discharged(f"{name}: rejected with {type(e).__name__} at {when}", "confirmed")
        return None
    except symc.SymbolicDivisionByZero as e:
        rec.direct_violation(name, sig + ":divides-by-zero", {"what": "library divided by an identically zero quantity instead of rejecting", "error": str(e)})
        return None
    except Exception as e:
        from .herm import library_exception_info

        is_lib, where = library_exception_info(e, pure_inputs=pure)
        if not is_lib:
            raise
        rec.direct_violation(name, sig + f":wrong-exception-{type(e).__name__}", {"exception": f"{type(e).__name__}: {e}", "where": where})
        return None
    msgs = [str(x.message) for x in w]
    if must:
        if any("Cannot confirm" in m_ for m_ in msgs):
            rec.discharged(f"{name}: not rejected but warned ({msgs[0][:60]}...)", "confirmed", warned=True)
        else:
            rec.direct_violation(f"{name}: accepted silently", sig + ":not-rejected", {"note": "no exception was raised for an ill-posed input", "warnings": msgs[:2]})
    return out, msgs


# ------------------------------------------------------------------------------------------------
# symbolic part


def c20_symbolic(cfg):
    import sympy
    from pymablock import block_diagonalize
    from pymablock.series import BlockSeries, one, zero

    rec = Rec("C20", cfg)
    kind = cfg["kind"]
    herm = cfg.get("hermitian", True)
    sig = f"{kind}:herm={herm}:" + ":".join(f"{k}={v}" for k, v in sorted(cfg.items()) if k in ("sizes", "pos", "format", "carrier"))
    rec.nontrivial = True
    rec.sample = {"config": cfg}

    if kind == "h0_not_block_diagonal":
        # H_0 gets a symbolic entry in off-diagonal block `pos`; everything else symbolic and well-posed
        P = bd.Problem(dict(cfg, carrier="B", terms=[[1]]))
        i, j = cfg["pos"]
        bad_block = symc.general("z_", P.sizes[i], P.sizes[j])
        fmt = cfg.get("format", "blockseries")
        if fmt == "blockseries":
            h0_blocks = [np.array(P.blk(P.H0, b, b), dtype=object) for b in range(P.nb)]
            terms = P.H.data

            def Heval(a, b, *order):
                if tuple(order) == P.zero_order:
                    if a == b:
                        return h0_blocks[a]
                    if (a, b) == (i, j) or (herm and (b, a) == (i, j)):
                        return bad_block if (a, b) == (i, j) else symc.dagger(bad_block)
                    return zero
                M = terms.get(tuple(order))
                return zero if M is None else np.array(P.blk(M, a, b), dtype=object)

            def call():
                H = BlockSeries(eval=Heval, shape=(P.nb, P.nb), n_infinite=1, name="H")
                return block_diagonalize(H, solve_sylvester=lambda Y, index: Y, hermitian=herm)

        else:  # numeric dense H_0 with a non-zero off-diagonal entry, list format + subspace_indices, symbolic perturbation
            H0 = np.diag([float(k) for k in range(P.N)])
            a, b = P.off[i], P.off[j]
            H0[a, b] = 0.5
            if herm:
                H0[b, a] = 0.5
            H1 = symc.SymArray(P.H.data[(1,)])

            def call():
                return block_diagonalize([H0, H1], subspace_eigenvectors=[np.eye(P.N)[:, P.off[k] : P.off[k + 1]] for k in range(P.nb)], hermitian=herm)

        _expect_raises(rec, f"H_0 block {cfg['pos']} non-zero ({fmt})", sig, call, must=True)
        return rec

    if kind == "shared_energy":
        # the first level of block i coincides with the first level of block j; carrier A (numeric) or C (same sympy symbol)
        carrier = cfg["carrier"]
        sizes = cfg["sizes"]
        i, j = cfg["pos"]
        N = sum(sizes)
        nb = len(sizes)
        off = np.cumsum([0] + sizes)
        blockof = [b for b, sz in enumerate(sizes) for _ in range(sz)]
        H1 = symc.hermitian("h_", N) if herm else symc.general("h_", N)
        if carrier == "A":
            ev = np.array([float(2 ** k) for k in range(N)])
            ev[off[j]] = ev[off[i]]
            if cfg.get("rounding"):
                # the two levels agree only up to floating-point rounding (0.1 + 0.2 vs 0.3), as eigensolver output would
                ev[off[i]], ev[off[j]] = 0.3, 0.1 + 0.2
            h0b = [np.diag(ev[off[k] : off[k + 1]]) for k in range(nb)]

            def Heval(a, c, n):
                if n == 0:
                    return h0b[a] if a == c else zero
                return np.array(H1[off[a] : off[a + 1], off[c] : off[c + 1]], dtype=object) if n == 1 else zero

            define = lambda: block_diagonalize(BlockSeries(eval=Heval, shape=(nb, nb), n_infinite=1), hermitian=herm)  # noqa: E731
        else:
            names = list(range(N))
            names[off[j]] = names[off[i]]
            H0s = sympy.diag(*[sb.sym(f"E{c}") for c in names])
            H1s = sb.matrix_to_sympy(H1)
            define = lambda: block_diagonalize({(0,): H0s, (1,): H1s}, subspace_indices=blockof, hermitian=herm)  # noqa: E731
        out = _expect_raises(rec, "definition", sig, define, when="definition")
        if out is None:
            return rec  # rejected already at definition (earlier than required)
        series = out[0]
        lo, hi = min(i, j), max(i, j)
        res = _expect_raises(rec, f"U[{lo},{hi},1] (needs the Sylvester solution for the pair of blocks sharing a level)", sig,
                             lambda: series[1][(lo, hi, 1)], when="first use")
        if res is not None:
            rec.direct_violation(f"shared energy between blocks {i},{j} not rejected", sig + ":not-rejected",
                                 {"returned": repr(res[0])[:200], "note": "U element computed although the coupled blocks share an unperturbed energy"})
            return rec
        # "never answered with silent garbage": asking again (same element, the other outputs, a higher order, the transposed
        # block) after the rejection must be rejected again - the failed evaluation may not leave the pair marked as validated
        for w_, idx_ in ((1, (lo, hi, 1)), (2, (lo, hi, 1)), (1, (lo, hi, 2)), (0, (lo, lo, 2)), (1, (hi, lo, 1))):
            again = _expect_raises(rec, f"{['H_tilde', 'U', 'U_inv'][w_]}{list(idx_)} requested after the rejection", sig, lambda: series[w_][idx_], when="repeated request")
            if again is not None:
                rec.direct_violation(f"shared energy between blocks {i},{j}: accepted on a later request", sig + ":accepted-after-rejection",
                                     {"request": [w_, *idx_], "returned": repr(again[0])[:200]})
                break
        return rec

    if kind == "mask_on_degenerate_pair":
        sizes = cfg["sizes"]
        b = cfg["pos"][0]
        N = sum(sizes)
        off = np.cumsum([0] + sizes)
        spec = [float(2 ** k) for k in range(N)]
        spec[off[b] + 1] = spec[off[b]]  # degenerate pair inside block b
        mask = np.zeros((sizes[b], sizes[b]), dtype=bool)
        mask[0, 1] = mask[1, 0] = True
        H0 = np.diag(spec)
        H1 = symc.SymArray(symc.hermitian("h_", N) if herm else symc.general("h_", N))
        h0b = [H0[off[k] : off[k + 1], off[k] : off[k + 1]] for k in range(len(sizes))]

        def Heval(a, c, n):
            if n == 0:
                return h0b[a] if a == c else zero
            if n == 1:
                return np.array(H1[off[a] : off[a + 1], off[c] : off[c + 1]], dtype=object)
            return zero

        def call():
            return block_diagonalize(BlockSeries(eval=Heval, shape=(len(sizes),) * 2, n_infinite=1), fully_diagonalize={b: mask}, hermitian=herm)

        _expect_raises(rec, f"mask eliminates a degenerate pair in block {b}", sig, call, must=True)
        return rec

    if kind == "bad_mask_among_several":
        # several masks in the dict, exactly one of them is invalid (asymmetric / on a degenerate pair / not an ndarray)
        sizes = cfg["sizes"]
        b = cfg["pos"][0]
        N = sum(sizes)
        off = np.cumsum([0] + sizes)
        spec = [float(2 ** k) for k in range(N)]
        how = cfg["how"]
        if how == "degenerate":
            spec[off[b] + 1] = spec[off[b]]
        h0b = [np.diag(spec[off[k] : off[k + 1]]) for k in range(len(sizes))]
        H1 = symc.hermitian("h_", N) if herm else symc.general("h_", N)
        masks = {}
        order = cfg["order"]
        for blk in order:
            m = np.zeros((sizes[blk], sizes[blk]), dtype=bool)
            if sizes[blk] >= 2:
                m[0, 1] = m[1, 0] = True
            if blk == b:
                if how == "asymmetric":
                    m[1, 0] = False
                elif how == "not_ndarray":
                    m = m.tolist()
            masks[blk] = m

        def Heval(a, c, n):
            if n == 0:
                return h0b[a] if a == c else zero
            return np.array(H1[off[a] : off[a + 1], off[c] : off[c + 1]], dtype=object) if n == 1 else zero

        _expect_raises(rec, f"{how} mask for block {b} among masks for blocks {order}", sig + f":{how}",
                       lambda: block_diagonalize(BlockSeries(eval=Heval, shape=(len(sizes),) * 2, n_infinite=1), fully_diagonalize=masks, hermitian=herm), must=True)
        return rec

    if kind == "asymmetric_mask_hermitian":
        sizes = cfg["sizes"]
        b = cfg["pos"][0]
        N = sum(sizes)
        off = np.cumsum([0] + sizes)
        spec = [float(k) for k in range(N)]
        mask = np.zeros((sizes[b], sizes[b]), dtype=bool)
        mask[0, 1] = True
        h0b = [np.diag(spec[off[k] : off[k + 1]]) for k in range(len(sizes))]
        H1 = symc.hermitian("h_", N)

        def Heval(a, c, n):
            if n == 0:
                return h0b[a] if a == c else zero
            return np.array(H1[off[a] : off[a + 1], off[c] : off[c + 1]], dtype=object) if n == 1 else zero

        _expect_raises(rec, f"asymmetric mask in Hermitian mode, block {b}", sig,
                       lambda: block_diagonalize(BlockSeries(eval=Heval, shape=(len(sizes),) * 2, n_infinite=1), fully_diagonalize={b: mask}, hermitian=True), must=True)
        return rec

    if kind == "bad_eigenvectors":
        sizes = cfg["sizes"]
        N = sum(sizes)
        off = np.cumsum([0] + sizes)
        how = cfg["how"]
        fmt = cfg.get("format", "numpy")
        V = np.eye(N)
        col = off[cfg["pos"][0]]
        if how == "scaled":
            V[:, col] *= 2
        elif how == "nonorthogonal":
            V[(col + 1) % N, col] = 0.5
        elif how == "duplicate":
            V[:, col] = V[:, (col + 1) % N]
        H0 = np.diag([float(k) for k in range(N)])
        H1 = symc.SymArray(symc.hermitian("h_", N) if herm else symc.general("h_", N))
        if fmt == "sympy":
            Vs = sympy.Matrix(V).applyfunc(sympy.nsimplify)
            vecs = [Vs[:, list(range(off[k], off[k + 1]))] for k in range(len(sizes))]
            ham = [sympy.diag(*range(N)), sb.matrix_to_sympy(H1)]
        else:
            vecs = [V[:, off[k] : off[k + 1]] for k in range(len(sizes))]
            ham = [H0, H1]
        if cfg.get("pairs"):
            vecs = [(v, v) for v in vecs]
        _expect_raises(rec, f"eigenvectors {how} ({fmt})", sig + f":{how}:{fmt}", lambda: block_diagonalize(ham, subspace_eigenvectors=vecs, hermitian=herm), must=True)
        return rec

    if kind == "nonhermitian_symbolic_term":
        # sympy-matrix input in Hermitian mode whose term of order `order` is not Hermitian
        N = 2
        order = cfg["order"]
        # the perturbative symbol with and without a reality assumption (the coefficient matrices decide, not the symbol)
        lam = sympy.Symbol("l0", real=True) if cfg.get("lam_real", True) else sympy.Symbol("l0")
        a, b, c = sympy.symbols("a b c", real=True)
        good = sympy.Matrix([[a, b + sympy.I * c], [b - sympy.I * c, -a]])
        # definitely non-Hermitian for every value of the symbols (sympy must be able to refute Hermiticity)
        bad = sympy.Matrix([[a, 1 + b**2], [-1 - b**2, -a]]) if cfg["how"] == "real_asym" else sympy.Matrix([[a + sympy.I, b], [b, c]])
        H = sympy.diag(0, 1)
        for n in range(1, 4):
            H = H + lam**n * (bad if n == order else good) * n
        out = _expect_raises(rec, "definition", sig, lambda: block_diagonalize(H, subspace_indices=[0, 1], symbols=[lam], hermitian=True), when="definition")
        if out is None:
            return rec
        series = out[0]
        # lower orders are well-defined and may be returned; order `order` needs the offending term
        for n in range(1, order):
            series[0][(0, 0, n)]
        res = _expect_raises(rec, f"H_tilde[0,0,{order}] needs the non-Hermitian term of order {order}", sig, lambda: series[0][(0, 0, order)], when="first use")
        if res is not None:
            rec.direct_violation("non-Hermitian symbolic term accepted in Hermitian mode", sig + ":not-rejected", {"order": order, "returned": str(res[0])[:200]})
        return rec

    if kind == "implicit_shared_level":
        # implicit mode: an explicit level that is degenerate with a level of the implicit complement and coupled to it
        from scipy import sparse

        n = cfg["n"]
        herm = cfg.get("hermitian", True)
        E = np.array([float(x) for x in cfg["spectrum"]])
        c, sn = 0.6, 0.8  # exact 3-4-5 rotation mixing the degenerate pair (0, 1) so that neither partner is a basis vector
        Q = np.eye(n)
        if cfg.get("rotated") == "generic":
            # a rotation whose entries are not exactly representable: E - H_0 is then singular only up to rounding
            c, sn = np.cos(0.3), np.sin(0.3)
            Q[:3, :3] = np.array([[c, -sn, 0], [sn, c, 0], [0, 0, 1]]) @ np.array([[1, 0, 0], [0, c, -sn], [0, sn, c]])
        elif cfg.get("rotated"):
            Q[:2, :2] = [[c, -sn], [sn, c]]
        H0 = (Q * E) @ Q.T
        rng = np.random.default_rng(2)
        H1 = rng.integers(1, 4, (n, n)).astype(float)
        H1 = H1 + H1.T if herm else H1
        h0 = sparse.csr_array(H0) if cfg.get("sparse") else H0
        vecs = [Q[:, :1]]

        def run():
            series = block_diagonalize([h0, H1], subspace_eigenvectors=vecs, hermitian=herm)
            vals = [series[1][(0, 1, 1)] @ np.eye(n), series[0][(0, 0, 2)]]
            if not all(np.all(np.isfinite(np.asarray(v, dtype=complex))) and np.max(np.abs(np.asarray(v, dtype=complex))) < 1e8 for v in vals):
                raise _Garbage(f"non-finite or astronomically large values returned: max |U_01,1| = {np.max(np.abs(np.asarray(vals[0], dtype=complex))):.2e}")
            return vals

        try:
            _expect_raises(rec, "explicit level degenerate with a level of the implicit complement", sig + f":rotated={cfg.get('rotated')}", run, when="definition or first use", must=True, pure=True)
        except _Garbage as g_:
            rec.direct_violation("explicit level degenerate with the implicit complement: answered with garbage", sig + f":rotated={cfg.get('rotated')}:garbage", {"note": str(g_)}, reproduced=True)
        return rec

    if kind == "second_quantized":
        # the same ill-posedness classes for operator-valued (second-quantised) Hamiltonians
        from sympy.physics.quantum import Dagger
        from sympy.physics.quantum.boson import BosonOp

        a, b = BosonOp("a"), BosonOp("b")
        w, g = sympy.symbols("omega g", real=True)
        Na, Nb = Dagger(a) * a, Dagger(b) * b
        which = cfg["which"]
        herm = cfg.get("hermitian", True)

        def first_use(build, requests):
            def run():
                series = build()
                out = []
                for wq, idx in requests:
                    out.append(series[wq][idx])
                return series, out

            return run

        if which == "shared_level_two_blocks":
            # two coupled blocks with identical H_0
            H = sympy.Matrix([[w * Na, g], [g, w * Na]])
            run = first_use(lambda: block_diagonalize(H, subspace_indices=[0, 1], symbols=[g], hermitian=herm), [(1, (0, 1, 1)), (0, (0, 0, 2))])
        elif which == "shared_level_resonant_term":
            # the term selected for elimination (a^dagger b) connects equal unperturbed energies
            H = w * Na + w * Nb + g * (Dagger(a) * b + Dagger(b) * a)
            run = first_use(lambda: block_diagonalize(H, symbols=[g], hermitian=herm), [(1, (0, 0, 1)), (0, (0, 0, 2))])
        elif which == "shared_level_matrix_element":
            # inside one fully diagonalised matrix block: two matrix levels whose energies coincide after the boson shift
            D = sympy.Symbol("Delta", real=True)
            H = sympy.Matrix([[w * Na, g * a], [g * Dagger(a), w * Na - w]])
            run = first_use(lambda: block_diagonalize(H, symbols=[g], hermitian=herm), [(1, (0, 0, 1)), (0, (0, 0, 2))])
        elif which == "asymmetric_operator_mask":
            H = w * Na + g * (a + Dagger(a))
            run = first_use(lambda: block_diagonalize(H, symbols=[g], fully_diagonalize={0: a}, hermitian=True), [(0, (0, 0, 1)), (1, (0, 0, 1))])
        elif which == "asymmetric_operator_matrix_mask":
            D = sympy.Symbol("Delta", real=True)
            H = sympy.Matrix([[w * Na, g * (a + Dagger(a))], [g * (a + Dagger(a)), w * Na + D]])
            mask = sympy.Matrix([[0, a + Dagger(a)], [0, 0]])
            run = first_use(lambda: block_diagonalize(H, symbols=[g], fully_diagonalize={0: mask}, hermitian=True), [(0, (0, 0, 1)), (1, (0, 0, 1))])
        elif which == "nonhermitian_operator_expression":
            H = w * Na + g * a
            run = first_use(lambda: block_diagonalize(H, symbols=[g], hermitian=True), [(0, (0, 0, 1)), (0, (0, 0, 2))])
        elif which == "nonhermitian_operator_matrix":
            D = sympy.Symbol("Delta", real=True)
            H = sympy.Matrix([[w * Na, g * a], [2 * g * Dagger(a), w * Na + D]])
            run = first_use(lambda: block_diagonalize(H, subspace_indices=[0, 1], symbols=[g], hermitian=True), [(0, (0, 0, 2))])
        elif which == "nonhermitian_operator_list":
            run = first_use(lambda: block_diagonalize([w * Na, a], symbols=[g], hermitian=True), [(0, (0, 0, 1)), (0, (0, 0, 2))])
        elif which == "nonhermitian_operator_dict":
            run = first_use(lambda: block_diagonalize({sympy.S.One: w * Na, g: a + 2 * Dagger(a)}, symbols=[g], hermitian=True), [(0, (0, 0, 1)), (0, (0, 0, 2))])
        elif which == "mask_selects_number_conserving_term":
            # the mask selects a number-conserving term of a diagonal element: it connects a level with itself and cannot be eliminated
            H = w * Na + g * (Na + a + Dagger(a))
            run = first_use(lambda: block_diagonalize(H, symbols=[g], fully_diagonalize=a + Dagger(a) + Dagger(a) * a, hermitian=True), [(0, (0, 0, 1)), (1, (0, 0, 1)), (0, (0, 0, 2))])
        elif which == "nonhermitian_sympy_list":
            run = first_use(lambda: block_diagonalize([sympy.diag(0, 1), sympy.Matrix([[0, 1], [3, 0]])], subspace_indices=[0, 1], hermitian=True), [(0, (0, 0, 2))])
        elif which == "nonhermitian_sympy_dict":
            x = sympy.Symbol("x", real=True)
            run = first_use(lambda: block_diagonalize({sympy.S.One: sympy.diag(0, 1), x: sympy.Matrix([[0, 1 + sympy.I], [3, 0]])}, subspace_indices=[0, 1], hermitian=True), [(0, (0, 0, 2))])
        else:
            raise KeyError(which)
        res = _expect_raises(rec, f"second-quantised / symbolic-container class {which}", sig + f":{which}", run, when="definition or first use", must=True)
        if res is not None:
            vals = res[0][1]
            rec.obligations[-1]["returned"] = [str(v)[:120] for v in vals]
        return rec

    if kind == "exclusive_options":
        which = cfg["which"]
        N = 3
        H0 = np.diag([0.0, 1.0, 2.0])
        H1 = symc.SymArray(symc.hermitian("h_", N))
        I = np.eye(N)
        calls = {
            "custom_solver_and_fully_diagonalize": lambda: block_diagonalize([H0, H1], subspace_indices=[0, 1, 1], solve_sylvester=lambda Y, index: Y, fully_diagonalize=(1,)),
            "eigenvectors_and_indices": lambda: block_diagonalize([H0, H1], subspace_indices=[0, 1, 1], subspace_eigenvectors=[I[:, :1], I[:, 1:]]),
            "pairs_in_hermitian_mode": lambda: block_diagonalize([H0, H1], subspace_eigenvectors=[(I[:, :1], I[:, :1]), (I[:, 1:], I[:, 1:])], hermitian=True),
            "mask_array_with_multiple_blocks": lambda: block_diagonalize([H0, H1], subspace_indices=[0, 1, 1], fully_diagonalize=np.zeros((2, 2), dtype=bool)),
            "implicit_symbolic": lambda: block_diagonalize([sympy.diag(0, 1, 2), sympy.Matrix(3, 3, lambda i, j: sympy.Symbol(f"s{min(i, j)}{max(i, j)}", real=True))],
                                                           subspace_eigenvectors=[sympy.Matrix([1, 0, 0])]),
            "legacy_solver_nonhermitian": lambda: block_diagonalize([H0, H1], subspace_indices=[0, 1, 1], solve_sylvester=lambda Y: Y, hermitian=False),
            "blocks_and_subspaces": lambda: block_diagonalize([[[H0[:1, :1], np.zeros((1, 2))], [np.zeros((2, 1)), H0[1:, 1:]]], [[H1[:1, :1], H1[:1, 1:]], [H1[1:, :1], H1[1:, 1:]]]], subspace_indices=[0, 1, 1]),
            "zero_h0": lambda: block_diagonalize([np.zeros((3, 3)), H1], subspace_indices=[0, 1, 1]),
            "mask_not_ndarray": lambda: block_diagonalize([H0, H1], subspace_indices=[0, 1, 1], fully_diagonalize={1: [[0, 1], [1, 0]]}),
            "wrong_type": lambda: block_diagonalize("not a hamiltonian"),
            "custom_solver_single_block": lambda: block_diagonalize([H0, H1], solve_sylvester=lambda Y, index: Y),
            "custom_solver_single_block_nonhermitian": lambda: block_diagonalize([H0, symc.SymArray(symc.general("g_", N))], solve_sylvester=lambda Y, index: Y, hermitian=False),
        }
        _expect_raises(rec, which, sig + ":" + which, calls[which], must=True)
        return rec

    raise KeyError(kind)


# ------------------------------------------------------------------------------------------------
# numeric part: reject iff ill-posed (independent predicate), otherwise finite


def _ill_posed(spec, blocks, fd, nb):
    """Independent predicate: coupled blocks share a level."""
    for a in range(len(spec)):
        for b in range(len(spec)):
            if blocks[a] != blocks[b] and spec[a] == spec[b]:
                return True
    return False


def c20_numeric(cfg):
    from pymablock import block_diagonalize
    from scipy import sparse

    rec = Rec("C20", cfg)
    N = cfg["N"]
    fmt = cfg["format"]  # dense | sparse
    herm = cfg.get("hermitian", True)
    rng = np.random.default_rng(7 + int(cfg.get("_seed", 0)))
    H1 = rng.normal(size=(N, N))  # generic values (finiteness is the claim here, not exactness)
    H1 = H1 + H1.T if herm else H1
    maxo = cfg.get("max_order", 3)
    cases = nonfinite = wrong_accept = wrong_reject = 0
    first = None
    assignments = [a for a in itertools.product(range(cfg["nblocks"]), repeat=N)
                   if all(a[k] <= max(a[:k], default=-1) + 1 for k in range(N))]  # canonical labelling, non-contiguous blocks included
    for spec in itertools.product(range(3), repeat=N):
        for blocks in assignments:
            nb = max(blocks) + 1
            for fdk in cfg["fd_kinds"]:
                if fdk == "none":
                    fd = ()
                elif fdk == "all":
                    fd = tuple(range(nb))
                else:  # mask on block 0 keeping exactly the degenerate pairs plus one extra non-degenerate kept pair if possible
                    idx0 = [k for k in range(N) if blocks[k] == 0]
                    if len(idx0) < 2:
                        continue
                    m = np.array([[spec[a] != spec[b] for b in idx0] for a in idx0], dtype=bool)
                    if fdk == "mask" and len(idx0) >= 3:
                        # keep one non-degenerate pair as well (selective diagonalisation)
                        for a in range(len(idx0)):
                            for b in range(a + 1, len(idx0)):
                                if m[a, b]:
                                    m[a, b] = m[b, a] = False
                                    break
                            else:
                                continue
                            break
                    fd = {0: m}
                cases += 1
                H0 = np.diag(np.array(spec, dtype=float))
                ham = [sparse.csr_array(H0), sparse.csr_array(H1)] if fmt == "sparse" else [H0, H1.copy()]
                ill = _ill_posed(spec, blocks, fd, nb)
                raised = None
                vals = []
                try:
                    with warnings.catch_warnings():
                        warnings.simplefilter("ignore")
                        Ht, U, Ui = block_diagonalize(ham, subspace_indices=list(blocks), fully_diagonalize=fd, hermitian=herm)
                        for n in range(maxo + 1):
                            for S in (Ht, U, Ui):
                                for i in range(nb):
                                    for j in range(nb):
                                        v = S[(i, j, n)]
                                        if hasattr(v, "toarray"):
                                            v = v.toarray()
                                        if isinstance(v, np.ndarray):
                                            vals.append(((i, j, n), v))
                except OK_EXC as e:
                    raised = e
                desc = {"spectrum": list(spec), "subspace_indices": list(blocks), "fully_diagonalize": fdk, "format": fmt, "hermitian": herm}
                if ill and raised is None:
                    wrong_accept += 1
                    first = first or ("ill-posed-accepted", desc)
                elif not ill and raised is not None and not any(spec):
                    pass  # H_0 = 0 is documented as invalid input ("The diagonal of the unperturbed Hamiltonian may not be zero")
                elif not ill and raised is not None:
                    wrong_reject += 1
                    first = first or ("well-posed-rejected", dict(desc, error=f"{type(raised).__name__}: {raised}"))
                elif not ill:
                    bad = [k for k, v in vals if not np.all(np.isfinite(v))]
                    if bad:
                        nonfinite += 1
                        first = first or ("non-finite", dict(desc, element=list(bad[0])))
    sig = f"numeric:format={fmt}:herm={herm}"
    if first is not None:
        kind, desc = first
        degen_kept = None
        if kind == "non-finite":
            spec, blocks = desc["spectrum"], desc["subspace_indices"]
            degen_kept = any(spec[a] == spec[b] and blocks[a] == blocks[b] for a in range(N) for b in range(a + 1, N))
        rec.direct_violation(
            f"{kind}: {desc}", sig + ":" + kind + (":kept-degenerate-pair" if degen_kept else ""),
            dict(desc, counts={"cases": cases, "nonfinite": nonfinite, "ill_posed_accepted": wrong_accept, "well_posed_rejected": wrong_reject}),
        )
    else:
        rec.discharged(f"{cases} integer problems (N={N}, {fmt}): rejected iff coupled blocks share a level; all accepted elements finite to order {maxo}", "confirmed")
    rec.obligations[-1]["cases"] = cases
    rec.nontrivial = True
    rec.sample = {"config": cfg, "cases": cases}
    return rec


# ------------------------------------------------------------------------------------------------


def configs(tier):
    jobs = []

    def S(**kw):
        jobs.append(("vf.props.illposed", "c20_symbolic", kw))

    layouts = [[1, 1], [1, 2], [2, 1], [1, 1, 1], [2, 2], [1, 1, 2]]
    for herm in (True, False):
        for sizes in layouts:
            nb = len(sizes)
            for i in range(nb):
                for j in range(nb):
                    if i == j or (herm and i > j):
                        continue
                    S(kind="h0_not_block_diagonal", hermitian=herm, sizes=sizes, spectrum="sym", pos=[i, j], format="blockseries", complex_spectrum=False)
                    if sum(sizes) <= 3:
                        S(kind="h0_not_block_diagonal", hermitian=herm, sizes=sizes, spectrum="sym", pos=[i, j], format="list", complex_spectrum=False)
                    for carrier in ("A", "C"):
                        if i < j:
                            S(kind="shared_energy", hermitian=herm, sizes=sizes, pos=[i, j], carrier=carrier)
                    if i < j:
                        S(kind="shared_energy", hermitian=herm, sizes=sizes, pos=[i, j], carrier="A", rounding=True)
            for b in range(nb):
                if sizes[b] >= 2:
                    S(kind="mask_on_degenerate_pair", hermitian=herm, sizes=sizes, pos=[b])
                    if herm:
                        S(kind="asymmetric_mask_hermitian", hermitian=True, sizes=sizes, pos=[b])
        for sizes in ([1, 2], [2, 1], [1, 1, 1]):
            for b in range(len(sizes)):
                for how in ("scaled", "nonorthogonal", "duplicate"):
                    for fmt in ("numpy", "sympy"):
                        S(kind="bad_eigenvectors", hermitian=herm, sizes=sizes, pos=[b], how=how, format=fmt)
                    if not herm:
                        S(kind="bad_eigenvectors", hermitian=False, sizes=sizes, pos=[b], how=how, format="numpy", pairs=True)
    import itertools as _it

    for herm in (True, False):
        for sizes in ([2, 2], [2, 1, 2], [2, 2, 2]):
            blocks2 = [k for k, sz in enumerate(sizes) if sz >= 2]
            for b in blocks2:
                for order in _it.permutations(blocks2):
                    for how in ("asymmetric", "degenerate", "not_ndarray"):
                        if how == "asymmetric" and not herm:
                            continue
                        S(kind="bad_mask_among_several", hermitian=herm, sizes=sizes, pos=[b], order=list(order), how=how)
    for herm in (True, False):
        for rotated in (False, True):
            S(kind="implicit_shared_level", hermitian=herm, n=4, spectrum=["0", "0", "1", "2"], rotated=rotated, sparse=rotated)
        S(kind="implicit_shared_level", hermitian=herm, n=5, spectrum=["1", "1", "3", "4", "6"], rotated="generic", sparse=True)
    for which in ("shared_level_two_blocks", "shared_level_resonant_term", "shared_level_matrix_element"):
        for herm in (True, False):
            S(kind="second_quantized", which=which, hermitian=herm)
    for which in ("asymmetric_operator_mask", "asymmetric_operator_matrix_mask", "nonhermitian_operator_expression", "nonhermitian_operator_matrix",
                  "nonhermitian_sympy_list", "nonhermitian_sympy_dict", "nonhermitian_operator_list", "nonhermitian_operator_dict", "mask_selects_number_conserving_term"):
        S(kind="second_quantized", which=which, hermitian=True)
    for order in (1, 2, 3):
        for how in ("real_asym", "complex_diag"):
            S(kind="nonhermitian_symbolic_term", hermitian=True, order=order, how=how)
            S(kind="nonhermitian_symbolic_term", hermitian=True, order=order, how=how, lam_real=False)
    for which in ("custom_solver_and_fully_diagonalize", "eigenvectors_and_indices", "pairs_in_hermitian_mode", "mask_array_with_multiple_blocks",
                  "implicit_symbolic", "legacy_solver_nonhermitian", "blocks_and_subspaces", "zero_h0", "mask_not_ndarray", "wrong_type",
                  "custom_solver_single_block", "custom_solver_single_block_nonhermitian"):
        S(kind="exclusive_options", which=which)
    for herm in (True, False):
        for fmt in ("dense", "sparse"):
            for N, nbl in ((2, 2), (3, 2), (3, 3)) + (((4, 2), (4, 3)) if tier == "thorough" else ()):
                jobs.append(("vf.props.illposed", "c20_numeric", dict(numeric=True, N=N, nblocks=nbl, format=fmt, hermitian=herm,
                                                                      fd_kinds=["none", "all", "mask", "maskdeg"], max_order=3)))
    if tier == "quick":
        jobs.append(("vf.props.illposed", "c20_numeric", dict(numeric=True, N=4, nblocks=2, format="sparse", hermitian=True, fd_kinds=["mask", "maskdeg"], max_order=3)))
    return jobs
