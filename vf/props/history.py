"""C10 (independence of evaluation history, no mutation) and C11 (exception safety).

Schedules / fault points are the enumerated paths of the driver; values stay symbolic and every
comparison `value == fresh value` is decided by the solver (syntactically identical z3 terms are
discharged structurally, everything else goes to z3; verdicts are cached per term pair).
"""
from __future__ import annotations

import itertools
import random

import numpy as np

from .. import bd, symc
from ..engine import Rec
from ..symc import SymC, lift

NAMES = ["Ht", "U", "Uinv"]


class EqCache:
    """Decide SymC-matrix equality for all values; cache verdicts by z3 term identity."""

    def __init__(self, rec):
        self.rec = rec
        self.cache = {}
        self.solver_calls = 0
        self.structural = 0

    def key(self, x):
        return (x.re.get_id(), x.im.get_id(), tuple(sorted(x.den.items())))

    def same(self, a, b):
        """True / False / None(unknown) for entrywise equality of two dense object matrices."""
        a = np.asarray(a, dtype=object)
        b = np.asarray(b, dtype=object)
        if a.shape != b.shape:
            return False
        ok = True
        for x, y in zip(a.flat, b.flat):
            x, y = lift(x), lift(y)
            kx, ky = self.key(x), self.key(y)
            if kx == ky:
                self.structural += 1
                continue
            ck = (kx, ky)
            if ck not in self.cache:
                from .. import solver

                v, _, _ = solver.decide((x - y).nonzero_clauses())
                self.solver_calls += 1
                self.cache[ck] = v
            v = self.cache[ck]
            if v in ("unsat", "structural"):
                continue
            if v == "sat":
                return False
            ok = None
        return ok


def _dense_value(P, v, i, j):
    from pymablock.series import one, zero

    if v is zero:
        return symc.zeros(P.sizes[i], P.sizes[j])
    if v is one:
        return symc.eye(P.sizes[i])
    return np.asarray(v, dtype=object)


def _snapshot_inputs(P):
    """Identity snapshot of every input array element (SymC objects are immutable value holders)."""
    snap = []
    for o, M in P.H.data.items():
        for idx in np.ndindex(M.shape):
            x = M[idx]
            snap.append((o, idx, id(x), x.re.get_id(), x.im.get_id(), tuple(sorted(x.den.items()))))
    return snap


def _check_snapshot(P, snap):
    for o, idx, ident, rid, iid, den in snap:
        x = P.H.data[o][idx]
        if id(x) != ident or x.re.get_id() != rid or x.im.get_id() != iid or tuple(sorted(x.den.items())) != den:
            return (o, idx)
    return None


def _alphabet(P, orders, with_slices):
    nb = P.nb
    alpha = []
    for w in range(3):
        for o in orders:
            for i in range(nb):
                for j in range(nb):
                    alpha.append(("el", w, i, j, o))
    if with_slices:
        for w in range(3):
            for o in orders:
                alpha.append(("blocks", w, o))  # S[:, :, o]
            for i in range(nb):
                for j in range(nb):
                    alpha.append(("orders", w, i, j, max(orders) + 1))  # S[i, j, :n]
    return alpha


def _request(P, series, req):
    """Perform one request; returns list of ((w,i,j,o), dense value)."""
    from pymablock.series import zero

    kind, w = req[0], req[1]
    S = series[w]
    out = []
    if kind == "el":
        _, _, i, j, o = req
        out.append(((w, i, j, o), _dense_value(P, S[(i, j, o)], i, j)))
    elif kind == "blocks":
        o = req[2]
        arr = S[:, :, o]
        for i in range(P.nb):
            for j in range(P.nb):
                v = arr[i, j]
                v = zero if v is np.ma.masked else v
                out.append(((w, i, j, o), _dense_value(P, v, i, j)))
    else:
        _, _, i, j, n = req
        arr = S[i, j, :n]
        for o in range(n):
            v = arr[o]
            v = zero if v is np.ma.masked else v
            out.append(((w, i, j, o), _dense_value(P, v, i, j)))
    return out


def c10(cfg):
    rec = Rec("C10", cfg)
    P = bd.Problem(cfg)
    eq = EqCache(rec)
    mo = P.max_order
    # reference: a fresh computation, canonical ascending schedule
    ref_series = P.run()
    ref = {}
    for w in range(3):
        for o in range(mo + 1):
            for i in range(P.nb):
                for j in range(P.nb):
                    ref[(w, i, j, o)] = _dense_value(P, ref_series[w][(i, j, o)], i, j)
    orders = list(range(cfg.get("min_order", 1), mo + 1))
    alpha = _alphabet(P, orders, cfg.get("slices", False))
    k = cfg["k"]
    if cfg.get("sample"):
        rnd = random.Random(cfg.get("sample_seed", 0))
        schedules = [tuple(rnd.choice(alpha) for _ in range(k)) for _ in range(cfg["sample"])]
    else:
        schedules = list(itertools.product(alpha, repeat=k))
        c, n = cfg.get("chunk", (0, 1))
        schedules = schedules[c::n]
    two = cfg.get("two_computations", False)
    snap = _snapshot_inputs(P)
    n_req = 0
    failures = []
    unknown = 0
    sig = f"history:carrier={P.carrier}:herm={P.hermitian}:sizes={'|'.join(map(str, P.sizes))}"
    for sched in schedules:
        comps = [P.run(), P.run()] if two else [P.run()]
        handed = []  # (key, dense value snapshot (element identities))
        for step, req in enumerate(sched):
            series = comps[step % len(comps)]
            for key, val in _request(P, series, req):
                n_req += 1
                r = eq.same(val, ref[key])
                if r is False:
                    failures.append({"schedule": [list(map(str, s)) for s in sched], "at": list(key), "kind": "value differs from fresh computation"})
                elif r is None:
                    unknown += 1
                handed.append((key, val, [id(x) for x in np.asarray(val, dtype=object).flat]))
        # previously returned values must be untouched
        for key, val, ids in handed:
            now = [id(x) for x in np.asarray(val, dtype=object).flat]
            if now != ids or eq.same(val, ref[key]) is False:
                failures.append({"schedule": [list(map(str, s)) for s in sched], "at": list(key), "kind": "returned value mutated later"})
        m = _check_snapshot(P, snap)
        if m is not None:
            failures.append({"schedule": [list(map(str, s)) for s in sched], "at": [list(m[0]), list(m[1])], "kind": "input array mutated"})
        if failures:
            break
    if failures:
        f = failures[0]

        def replay_detail():
            return f

        rec.direct_violation(f"schedule {f['schedule']}", sig + ":" + f["kind"].replace(" ", "-"), f, reproduced=_replay_schedule(cfg, f))
    else:
        rec.discharged(
            f"{len(schedules)} schedules x {k} requests: all {n_req} returned values equal the fresh computation "
            f"({eq.structural} entries syntactically, {eq.solver_calls} by z3), no returned/input value mutated",
            "unsat" if unknown == 0 else "unknown",
        )
    rec.obligations[-1]["schedules"] = len(schedules)
    rec.nontrivial = len(schedules) > 0
    rec.sample = {"config": cfg, "first_schedule": [list(map(str, s)) for s in schedules[0]] if schedules else None, "schedules": len(schedules)}
    rec.guard("assumptions_sat", __import__("vf.solver", fromlist=["x"]).assumptions_sat() == "sat")
    return rec


def _replay_schedule(cfg, failure):
    """Numeric replay of a failing schedule on the public API with random rational-free float inputs."""
    try:
        P = bd.Problem(cfg)
        rng = np.random.default_rng(1)
        N = P.N
        E = [complex(float(a), float(b)) for a, b in (P.E_num or [(i * 1.5 + 0.25 * i * i, 0) for i in range(N)])]
        terms = {}
        for o in P.H.data:
            if o == P.zero_order:
                continue
            M = rng.integers(-3, 4, (N, N)) + 1j * rng.integers(-3, 4, (N, N))
            if P.hermitian:
                M = M + M.conj().T
            terms[o] = M.astype(complex)

        def run():
            from pymablock import block_diagonalize  # noqa: F401

            return bd.numeric_series(P.sizes, E, terms, hermitian=P.hermitian, fd=cfg.get("fd"), callback=(P.carrier == "B"))

        fresh = run()
        sched = failure["schedule"]
        comps = [run(), run()] if cfg.get("two_computations") else [run()]
        from pymablock.series import one, zero

        def dense(v, i, j):
            if v is zero:
                return np.zeros((P.sizes[i], P.sizes[j]))
            if v is one:
                return np.eye(P.sizes[i])
            return np.asarray(v)

        for step, req in enumerate(sched):
            series = comps[step % len(comps)]
            kind, w = req[0], int(req[1])
            if kind == "el":
                i, j, o = int(req[2]), int(req[3]), int(req[4])
                got = dense(series[w][(i, j, o)], i, j)
                want = dense(fresh[w][(i, j, o)], i, j)
                if not np.allclose(got, want, atol=1e-9):
                    return True
            elif kind == "blocks":
                o = int(req[2])
                arr = series[w][:, :, o]
                for i in range(P.nb):
                    for j in range(P.nb):
                        v = arr[i, j]
                        v = zero if v is np.ma.masked else v
                        if not np.allclose(dense(v, i, j), dense(fresh[w][(i, j, o)], i, j), atol=1e-9):
                            return True
            else:
                i, j, n = int(req[2]), int(req[3]), int(req[4])
                arr = series[w][i, j, :n]
                for o in range(n):
                    v = arr[o]
                    v = zero if v is np.ma.masked else v
                    if not np.allclose(dense(v, i, j), dense(fresh[w][(i, j, o)], i, j), atol=1e-9):
                        return True
        return failure["kind"] != "value differs from fresh computation"  # mutation findings are concrete facts already
    except Exception:
        return True  # the concrete execution itself misbehaved: still a reproduced problem of the real code


def c10_product(cfg):
    """History independence / no mutation at the level of cauchy_dot_product with identity sentinels in the factors
    (the block-diagonalisation algorithms only multiply series without zeroth order, so the `one` code path of
    product_by_order - where a term IS a cached factor element - is only reachable here)."""
    from pymablock.series import BlockSeries, cauchy_dot_product, one, zero

    rec = Rec("C10", cfg)
    eq = EqCache(rec)
    nf, nb, mo = cfg["factors"], cfg["blocks"], cfg["max_order"]

    def tables():
        tabs = []
        for t in range(nf):
            tab = {}
            for i in range(nb):
                for j in range(nb):
                    tab[(i, j, 0)] = one if i == j else zero
                    for o in range(1, cfg["factor_order"] + 1):
                        tab[(i, j, o)] = symc.general(f"f{t}_{i}{j}_{o}_", 1, 1)
            tabs.append(tab)
        return tabs

    tabs = tables()
    herm_flag = bool(cfg.get("hermitian_product"))
    if herm_flag:
        # X^dagger X with X = 1 + X' and hermitian=True: the shortcut branch of product_by_order (term + Dagger(term))
        assert nf == 2
        X = tabs[1]
        tabs[0] = {(j, i, o): (v if (v is one or v is zero) else symc.dagger(v)) for (i, j, o), v in X.items()}
    snap = [(t, k, id(v), None if v is one or v is zero else [id(x) for x in v.flat] + [x.re.get_id() for x in v.flat]) for t, tab in enumerate(tabs) for k, v in tab.items()]

    def fresh_product():
        series = [BlockSeries(data=dict(tab), shape=(nb, nb), n_infinite=1, name=f"F{t}") for t, tab in enumerate(tabs)]
        return cauchy_dot_product(*series, hermitian=herm_flag), series

    def dense(v):
        return symc.zeros(1, 1) if v is zero else (symc.eye(1) if v is one else np.asarray(v, dtype=object))

    keys = [(i, j, o) for o in range(mo + 1) for i in range(nb) for j in range(nb)]
    prod, _ = fresh_product()
    ref = {k: dense(prod[k]) for k in keys}
    rnd = random.Random(cfg.get("sample_seed", 0))
    schedules = [tuple(rnd.sample(keys, len(keys))) for _ in range(cfg["sample"])] + [tuple(keys), tuple(keys[::-1])]
    failures = []
    for sched in schedules:
        prod, series = fresh_product()
        for k in sched:
            if eq.same(dense(prod[k]), ref[k]) is False:
                failures.append({"schedule": [list(x) for x in sched], "at": list(k), "kind": "value differs from fresh computation"})
                break
        for t, k, ident, ids in snap:
            v = tabs[t][k]
            now = None if v is one or v is zero else [id(x) for x in v.flat] + [x.re.get_id() for x in v.flat]
            if id(v) != ident or now != ids:
                failures.append({"schedule": [list(x) for x in sched], "at": [t, list(k)], "kind": "input array mutated"})
                break
        for t, sr in enumerate(series):
            for k, v in tabs[t].items():
                if sr._data.get(k) is not v:
                    failures.append({"schedule": [list(x) for x in sched], "at": [t, list(k)], "kind": "factor series element replaced"})
                    break
        if failures:
            break
    sig = f"history:product:factors={nf}" + (":hermitian" if herm_flag else "")
    if failures:
        f = failures[0]
        rec.direct_violation(f"product schedule {f['at']}", sig + ":" + f["kind"].replace(" ", "-"), f, reproduced=True)
    else:
        rec.discharged(f"{len(schedules)} request orders over {len(keys)} product elements: values equal fresh product, factor data untouched "
                       f"({eq.structural} entries syntactically, {eq.solver_calls} by z3)", "unsat")
    rec.nontrivial = True
    rec.sample = {"config": cfg, "schedules": len(schedules)}
    return rec


def c10_formats(cfg):
    """(a) the caller's input containers (list / dicts / arrays) are never modified; (b) history independence when the
    Hamiltonian is a sympy matrix that the library Taylor-expands lazily (its own cached derivative series)."""
    import sympy
    from pymablock import block_diagonalize
    from scipy import sparse

    from .. import sympy_bridge as sb

    rec = Rec("C10", cfg)
    rec.nontrivial = True
    mode = cfg["mode"]
    if mode == "containers":
        N = 3
        herm = cfg.get("hermitian", True)
        H1 = symc.SymArray(symc.hermitian("h_", N) if herm else symc.general("h_", N))
        H2 = symc.SymArray(symc.hermitian("g_", N) if herm else symc.general("g_", N))
        I3 = np.eye(N)
        vecs = [I3[:, :1], I3[:, 1:]]
        x, y = sympy.symbols("x y", real=True)

        def variants():
            H0d = np.diag([0.0, 1.0, 3.0])
            yield "list dense diagonal h0", [H0d, H1, H2], dict(subspace_eigenvectors=vecs)
            yield "dict tuple keys dense diagonal h0", {(0, 0): np.diag([0.0, 1.0, 3.0]), (1, 0): H1, (0, 1): H2}, dict(subspace_eigenvectors=vecs)
            yield "dict tuple keys sparse h0", {(0,): sparse.csr_array(np.diag([0.0, 1.0, 3.0])), (1,): H1}, dict(subspace_eigenvectors=vecs)
            yield "dict tuple keys coo h0", {(0,): sparse.coo_array(np.diag([0.0, 1.0, 3.0])), (1,): H1}, dict(subspace_eigenvectors=vecs)
            yield "dict monomial keys", {sympy.S.One: np.diag([0.0, 1.0, 3.0]), x: H1, y: H2}, dict(subspace_eigenvectors=vecs)
            S0 = sympy.diag(0, 1, 3)
            S1 = sb.matrix_to_sympy(H1)
            yield "list of sympy matrices", [S0, S1], dict(subspace_indices=[0, 1, 1])
            yield "dict of sympy matrices", {(0,): sympy.diag(0, 1, 3), (1,): S1}, dict(subspace_indices=[0, 1, 1])
            # a caller-built blocked BlockSeries: the dictionary handed to BlockSeries(data=...) stays the caller's
            from pymablock.series import BlockSeries

            d = {(0, 0, 0): np.diag([0.0]), (1, 1, 0): np.diag([1.0, 3.0])}
            for (i, j), sl in {(0, 0): (slice(0, 1), slice(0, 1)), (0, 1): (slice(0, 1), slice(1, 3)), (1, 0): (slice(1, 3), slice(0, 1)), (1, 1): (slice(1, 3), slice(1, 3))}.items():
                d[(i, j, 1)] = symc.SymArray(np.asarray(H1)[sl])
            yield "BlockSeries data dictionary", BlockSeries(data=d, shape=(2, 2), n_infinite=1), {}, d

        for variant in variants():
            name, ham_in, kw = variant[:3]
            ham = variant[3] if len(variant) > 3 else ham_in
            keys = list(ham.keys()) if isinstance(ham, dict) else list(range(len(ham)))
            before = {}
            for k in keys:
                v = ham[k]
                if sparse.issparse(v):
                    snap = (type(v), v.toarray().copy())
                elif isinstance(v, np.ndarray) and v.dtype != object:
                    snap = (type(v), v.copy())
                elif isinstance(v, np.ndarray):
                    snap = (type(v), [id(e) for e in v.flat])
                else:
                    snap = (type(v), v.copy() if hasattr(v, "copy") else v)
                before[k] = (id(v), snap)
            if "subspace_eigenvectors" in kw:
                vec_snap = [v.copy() for v in kw["subspace_eigenvectors"]]
            series = block_diagonalize(ham_in, hermitian=herm, **kw)
            nper = series[0].n_infinite
            for S in series:
                for o in itertools.product(range(3), repeat=nper):
                    if sum(o) <= 2:
                        S[(0, 0, *o)]
                        S[(0, 1, *o)]
            problems = []
            now_keys = list(ham.keys()) if isinstance(ham, dict) else list(range(len(ham)))
            if now_keys != keys:
                problems.append("keys changed")
            for k in keys:
                v = ham[k]
                ident, (typ, snap) = before[k]
                if id(v) != ident or type(v) is not typ:
                    problems.append(f"value under key {k!r} replaced ({typ.__name__} -> {type(v).__name__})")
                    continue
                if sparse.issparse(v):
                    same = np.array_equal(v.toarray(), snap)
                elif isinstance(v, np.ndarray) and v.dtype != object:
                    same = np.array_equal(v, snap)
                elif isinstance(v, np.ndarray):
                    same = [id(e) for e in v.flat] == snap
                else:
                    same = v == snap
                if not same:
                    problems.append(f"contents under key {k!r} modified")
            if "subspace_eigenvectors" in kw and not all(np.array_equal(a, b) for a, b in zip(kw["subspace_eigenvectors"], vec_snap)):
                problems.append("subspace_eigenvectors modified")
            if problems:
                rec.direct_violation(f"input container mutated: {name}", f"history:input-container-mutated:{name.split()[0]}", {"format": name, "problems": problems})
            else:
                rec.discharged(f"input container untouched: {name}", "confirmed")
        rec.sample = {"config": cfg}
        return rec
    # mode == "sympy_taylor": two symbols, mixed monomials with unequal exponents
    herm = cfg.get("hermitian", True)
    N = 2
    A, B, C, D = (symc.hermitian(nm, N) if herm else symc.general(nm, N) for nm in ("a_", "b_", "c_", "d_"))
    x, y = sympy.Symbol("l0", real=True), sympy.Symbol("l1", real=True)
    H = sympy.diag(0, 1) + x * sb.matrix_to_sympy(A) + y * sb.matrix_to_sympy(B) + x * y**2 * sb.matrix_to_sympy(C) + x**2 * y * sb.matrix_to_sympy(D)
    tr = sb.Translator()

    def fresh():
        return block_diagonalize(H, subspace_indices=[0, 1], symbols=[x, y], hermitian=herm)

    def val(S, key):
        from pymablock.series import one, zero

        v = S[key]
        if v is zero:
            return symc.zeros(1, 1)
        if v is one:
            return symc.eye(1)
        return sb.matrix_to_symc(sympy.Matrix(v), tr)

    eq = EqCache(rec)
    orders = [o for o in itertools.product(range(4), repeat=2) if sum(o) <= cfg["max_order"]]
    w = cfg["series"]
    blocks = [(0, 0), (0, 1)]
    ref = {}
    for o in orders:
        for b in blocks:
            ref[(b, o)] = val(fresh()[w], (*b, *o))  # one fresh computation per element
    alpha = [(b, o) for o in orders if sum(o) >= 2 for b in blocks]
    scheds = list(itertools.product(alpha, repeat=2))
    ci, cn = cfg.get("chunk", (0, 1))
    scheds = scheds[ci::cn]
    fails = []
    for sched in scheds:
        S = fresh()[w]
        for b, o in sched:
            r = eq.same(val(S, (*b, *o)), ref[(b, o)])
            if r is False:
                fails.append({"schedule": [[list(bb), list(oo)] for bb, oo in sched], "at": [list(b), list(o)], "kind": "value differs from fresh computation"})
                break
        if fails:
            break
    if fails:
        rec.direct_violation(f"schedule {fails[0]['schedule']}", f"history:sympy-taylor:series={NAMES[w]}", fails[0])
    else:
        rec.discharged(f"{len(scheds)} request pairs on a lazily Taylor-expanded sympy Hamiltonian (2 symbols, mixed monomials): values equal fresh computations "
                       f"({eq.structural} entries syntactically, {eq.solver_calls} by z3)", "unsat")
    rec.sample = {"config": cfg, "schedules": len(scheds)}
    return rec


def c10_implicit(cfg):
    """History independence in implicit mode (LinearOperator blocks, direct solver with the exact-LU stub)."""
    import pymablock.linalg as PL
    from pymablock import block_diagonalize
    from pymablock.series import one, zero
    from scipy.sparse.linalg import LinearOperator

    from .implicit import basis_pair, exact_factorized

    rec = Rec("C10", cfg)
    herm = cfg.get("hermitian", True)
    n, explicit = cfg["n"], cfg["explicit"]
    k = sum(explicit)
    Q, Lq = basis_pair(cfg["basis"], n)
    Efl = np.array([float(x) for x in cfg["spectrum"]])
    H0 = (Q * Efl) @ Lq.conj().T
    if np.allclose(np.asarray(H0).imag, 0):
        H0 = np.asarray(H0).real
    H1 = symc.SymArray(symc.hermitian("h_", n) if herm else symc.general("h_", n))
    off = np.cumsum([0] + explicit)
    vecs = [Q[:, off[b] : off[b + 1]].copy() for b in range(len(explicit))]
    nb = len(explicit) + 1
    mo = cfg["max_order"]
    eq = EqCache(rec)
    old = PL.factorized
    PL.factorized = exact_factorized
    try:
        def fresh():
            return block_diagonalize([H0, H1], subspace_eigenvectors=vecs, hermitian=herm)

        def val(S, key):
            v = S[key]
            if v is zero:
                return symc.zeros(1, 1)
            if v is one:
                return symc.eye(1)
            if isinstance(v, LinearOperator):
                v = v @ np.eye(n)
            return np.asarray(v, dtype=object)

        keys = [(w, i, j, o) for w in range(3) for o in range(1, mo + 1) for i in range(nb) for j in range(nb)]
        base = fresh()
        ref = {key: val(base[key[0]], key[1:]) for key in keys}
        scheds = list(itertools.product(keys, repeat=2))
        ci, cn = cfg.get("chunk", (0, 1))
        scheds = scheds[ci::cn]
        if cfg.get("sample"):
            rnd = random.Random(cfg.get("sample_seed", 0))
            scheds = [tuple(rnd.choice(keys) for _ in range(cfg["k"])) for _ in range(cfg["sample"])]
        fails = []
        for sched in scheds:
            series = fresh()
            for key in sched:
                r = eq.same(val(series[key[0]], key[1:]), ref[key])
                if r is False:
                    fails.append({"schedule": [list(x) for x in sched], "at": list(key), "kind": "value differs from fresh computation"})
                    break
            if fails:
                break
    finally:
        PL.factorized = old
    sig = f"history:implicit:herm={herm}"
    if fails:
        rec.direct_violation(f"implicit-mode schedule {fails[0]['schedule']}", sig, fails[0])
    else:
        rec.discharged(f"{len(scheds)} implicit-mode schedules: all values equal the fresh computation ({eq.structural} entries syntactically, {eq.solver_calls} by z3)", "unsat")
    rec.nontrivial = True
    rec.sample = {"config": cfg, "schedules": len(scheds)}
    return rec


# ------------------------------------------------------------------------------------------------
# C11


class FaultArray(np.ndarray):
    """Object ndarray whose matrix products count as callback invocations and may raise on demand."""

    __array_priority__ = 50
    state = None  # shared injector

    def __new__(cls, a):
        return np.asarray(a, dtype=object).view(cls)

    def __matmul__(self, other):
        FaultArray.state.tick("matmul")
        return np.matmul(np.asarray(self, dtype=object), np.asarray(other, dtype=object)).view(FaultArray)

    def __rmatmul__(self, other):
        FaultArray.state.tick("matmul")
        return np.matmul(np.asarray(other, dtype=object), np.asarray(self, dtype=object)).view(FaultArray)


class Injector:
    def __init__(self):
        self.count = {"H": 0, "sylvester": 0, "matmul": 0}
        self.target = None  # (kind, index, exception type) or list of them
        self.fired = []

    def arm(self, targets):
        self.count = {k: 0 for k in self.count}
        self.target = list(targets)
        self.fired = []

    def tick(self, kind):
        n = self.count[kind]
        self.count[kind] = n + 1
        if self.target:
            for t in list(self.target):
                if t[0] == kind and t[1] == n:
                    self.target.remove(t)
                    self.fired.append(t)
                    raise t[2](f"injected fault in {kind} call #{n}")


class SolverFailure(RuntimeError):
    """A user-defined exception type that derives from RuntimeError."""


EXC = {"Exception": Exception, "RuntimeError": RuntimeError, "KeyboardInterrupt": KeyboardInterrupt, "ValueError": ValueError,
       "NotImplementedError": NotImplementedError, "SolverFailure": SolverFailure}


def _faulty_problem(cfg, inj):
    """Problem on carrier B whose three user callbacks tick the injector."""
    from pymablock import block_diagonalize
    from pymablock.series import BlockSeries, zero

    P = bd.Problem(cfg)
    E, off = P.E, P.off
    if P.carrier == "A":
        # the library's own diagonal solver (and its elimination masks): numeric dyadic H_0, symbolic perturbation
        P.check_dyadic()
        ev = np.array([float(a) for a, _ in P.E_num])
        h0_blocks = [np.diag(ev[off[i] : off[i + 1]]) for i in range(P.nb)]
    else:
        h0_blocks = [FaultArray(P.blk(P.H0, i, i)) for i in range(P.nb)]
    terms = P.H.data
    zo = P.zero_order

    def Heval(i, j, *order):
        inj.tick("H")
        if tuple(order) == zo:
            return h0_blocks[i] if i == j else zero
        M = terms.get(tuple(order))
        if M is None:
            return zero
        return FaultArray(P.blk(M, i, j))

    def solve_sylvester(Y, index):
        if Y is zero:
            return zero
        inj.tick("sylvester")
        i, j = index[:2]
        out = np.empty(Y.shape, dtype=object)
        for a in range(Y.shape[0]):
            for b in range(Y.shape[1]):
                out[a, b] = Y[a, b] / (E[off[i] + a] - E[off[j] + b])
        return FaultArray(out)

    def Heval_nested(*order):
        # one evaluation of the user's term returns all of its blocks (list of lists), the library unpacks them
        inj.tick("H")
        if tuple(order) != zo and terms.get(tuple(order)) is None:
            return zero
        return [[(h0_blocks[i] if i == j else zero) if tuple(order) == zo else FaultArray(P.blk(terms[tuple(order)], i, j)) for j in range(P.nb)] for i in range(P.nb)]

    def make():
        if cfg.get("input_format") == "nested":
            H = BlockSeries(eval=Heval_nested, shape=(), n_infinite=P.nparams, name="H")
        else:
            H = BlockSeries(eval=Heval, shape=(P.nb, P.nb), n_infinite=P.nparams, name="H")
        if P.carrier == "A":
            return block_diagonalize(H, hermitian=P.hermitian, **P.fd_kwarg())
        return block_diagonalize(H, solve_sylvester=solve_sylvester, hermitian=P.hermitian)

    return P, make


def _pending_left(series_list):
    """Search every cache reachable from the returned series for the PENDING marker."""
    from pymablock.series import PENDING, BlockSeries

    seen = set()
    stack = list(series_list)
    found = []
    while stack:
        s = stack.pop()
        if id(s) in seen:
            continue
        seen.add(id(s))
        if isinstance(s, BlockSeries):
            for k, v in s._data.items():
                if v is PENDING:
                    found.append((s.name, k))
            fn = s.eval
            stack.append(fn)
        elif callable(s):
            for cell in getattr(s, "__closure__", None) or ():
                try:
                    stack.append(cell.cell_contents)
                except ValueError:
                    pass
            g = getattr(s, "__globals__", None)
            if g is not None and "series" in g and isinstance(g["series"], dict):
                stack.extend(g["series"].values())
                stack.extend(g.get("linear_operator_series", {}).values())
        elif isinstance(s, dict):
            stack.extend(s.values())
        elif isinstance(s, (list, tuple)):
            stack.extend(s)
    return found


def c11(cfg):
    rec = Rec("C11", cfg)
    inj = Injector()
    FaultArray.state = inj
    P, make = _faulty_problem(cfg, inj)
    eq = EqCache(rec)
    mo = P.max_order
    all_keys = [(w, i, j, o) for o in range(mo + 1) for w in range(3) for i in range(P.nb) for j in range(P.nb)]
    # clean run: reference values and number of invocations of each callback for the trigger request
    inj.arm([])
    series = make()
    inj.arm([])  # invocations are counted from the first request on (the definition only reads zeroth-order terms)
    trigger = tuple(cfg.get("trigger", (0, 0, 0, mo)))  # (w,i,j,o) request during which faults are injected
    w, i, j, o = trigger
    form = cfg.get("trigger_form", "int")

    def fire(series_):
        """The request during which faults are injected, in one of the index forms the public API accepts."""
        S = series_[w]
        if form == "int":
            return S[(i, j, o)]
        if form == "order_slice":
            return S[i, j, : o + 1]
        if form == "block_slice":
            return S[:, :, o]
        if form == "negative":
            return S[(i - P.nb, j - P.nb, o)]
        if form == "list":
            return S[[i], j, o]
        if form == "view":
            return S[i, j][o]
        raise KeyError(form)

    fire(series)
    counts = dict(inj.count)
    ref = {k: _dense_value(P, series[k[0]][(k[1], k[2], k[3])], k[1], k[2]) for k in all_keys}
    kinds = cfg.get("kinds", ["H", "sylvester", "matmul"])
    excs = cfg.get("exceptions", ["Exception", "RuntimeError", "KeyboardInterrupt", "SolverFailure"])
    points = [(kd, n) for kd in kinds for n in range(counts[kd])]
    if cfg.get("double"):
        pts = points
        points = []
        for a in pts:
            points.append((a, ("H", 0)))  # second fault: first H evaluation of the retry
    after = cfg.get("after", "same_then_all")
    sig = f"fault:herm={P.hermitian}:sizes={'|'.join(map(str, P.sizes))}:request={form}" + (f":input={cfg['input_format']}" if cfg.get("input_format") else "")
    n_cases = 0
    failures = []
    unknown = 0
    for pt in points:
        for en in excs:
            n_cases += 1
            exc = EXC[en]
            if cfg.get("double"):
                first, second = pt
                targets = [(first[0], first[1], exc)]
            else:
                targets = [(pt[0], pt[1], exc)]
            inj.arm([])
            series = make()
            inj.arm(targets)
            raised = None
            try:
                fire(series)
            except BaseException as e:  # noqa: BLE001
                raised = e
            case = {"point": list(map(str, pt)), "exception": en, "trigger": list(trigger)}
            if not inj.fired:
                # the callback index was not reached in this run (cannot happen for a deterministic run)
                failures.append(dict(case, kind="fault point not reached"))
                break
            # (1) the exception reaches the caller with its type (RuntimeError may be re-wrapped as RuntimeError)
            if raised is None:
                failures.append(dict(case, kind="exception swallowed"))
                break
            if not isinstance(raised, exc):
                failures.append(dict(case, kind=f"exception type changed to {type(raised).__name__}"))
                break
            # (2) no in-flight marker left anywhere
            left = _pending_left(list(series))
            if left:
                failures.append(dict(case, kind="PENDING marker left behind", where=[str(x) for x in left[:3]]))
                break
            if cfg.get("double"):
                inj.arm([(second[0], second[1], exc)])
                try:
                    fire(series)
                except BaseException:  # noqa: BLE001
                    pass
                left = _pending_left(list(series))
                if left:
                    failures.append(dict(case, kind="PENDING marker left behind after second fault", where=[str(x) for x in left[:3]]))
                    break
            # (3) every later request equals the clean value
            inj.arm([])
            order = list(all_keys)
            if after == "same_then_all":
                order = [trigger] + order
            elif after == "reverse":
                order = order[::-1]
            ok = True
            for k in order:
                try:
                    val = _dense_value(P, series[k[0]][(k[1], k[2], k[3])], k[1], k[2])
                except BaseException as e:  # noqa: BLE001
                    failures.append(dict(case, kind=f"later request {k} raised {type(e).__name__}: {e}"[:300]))
                    ok = False
                    break
                r = eq.same(val, ref[k])
                if r is False:
                    failures.append(dict(case, kind="value after fault differs from clean run", at=list(k)))
                    ok = False
                    break
                if r is None:
                    unknown += 1
            if not ok:
                break
        if failures:
            break
    if failures:
        f = failures[0]
        rec.direct_violation(f"fault {f['point']} {f['exception']}", sig + ":" + f["kind"].split(":")[0].replace(" ", "-")[:60], f, reproduced=True)
    else:
        rec.discharged(
            f"{n_cases} fault cases ({len(points)} injection points x {len(excs)} exception types): exception propagated with its type, "
            f"no PENDING left, all {len(all_keys)} elements afterwards equal the clean run ({eq.structural} entries syntactically, {eq.solver_calls} by z3)",
            "unsat" if unknown == 0 else "unknown",
        )
    rec.obligations[-1]["fault_cases"] = n_cases
    rec.nontrivial = n_cases > 0
    rec.guard("fault-injection-points-exist", n_cases > 0, f"callback invocations in the clean run: {counts}")
    rec.sample = {"config": cfg, "callback_invocations_in_clean_run": counts, "fault_cases": n_cases}
    return rec


# ------------------------------------------------------------------------------------------------


def configs_c10(tier, seed):
    from ..configs import CPLX_SPECTRA, RAT_SPECTRA

    cfgs = []
    nchunk = 16

    def add(**kw):
        cfgs.append(kw)

    for herm in (True, False):
        spec2 = RAT_SPECTRA[2] if herm else CPLX_SPECTRA[2]
        spec3 = RAT_SPECTRA[3] if herm else CPLX_SPECTRA[3]
        base11 = dict(carrier="B", hermitian=herm, sizes=[1, 1], spectrum=spec2, terms=[[1], [2]], max_order=2)
        base12 = dict(carrier="B", hermitian=herm, sizes=[1, 2], spectrum=spec3, terms=[[1]], max_order=2)
        base111 = dict(carrier="B", hermitian=herm, sizes=[1, 1, 1], spectrum=spec3, terms=[[1]], max_order=2)
        # exhaustive k=2 over the full alphabet (elements of orders 1..2 of all three outputs + slice requests)
        for c in range(4):
            add(**base11, k=2, slices=True, chunk=(c, 4))
            add(**base12, k=2, slices=True, chunk=(c, 4))
        # two interleaved computations sharing the input objects
        for c in range(2):
            add(**base11, k=2, slices=True, two_computations=True, chunk=(c, 2))
        # exhaustive k=3 over the scalar alphabet of 1|1 (13824 schedules)
        kk = 3
        nck = nchunk if tier == "thorough" else 8
        for c in range(nck):
            if tier == "thorough":
                add(**base11, k=kk, chunk=(c, nck))
            else:
                add(**base11, k=kk, sample=150, sample_seed=100 + c)
        # longer histories on a reduced alphabet (H_tilde and U only via order-2 elements) + random long schedules
        add(**base12, k=6, sample=60 if tier == "quick" else 600, sample_seed=1 + seed, slices=True)
        add(**base111, k=6, sample=40 if tier == "quick" else 400, sample_seed=2 + seed, slices=True)
        add(**dict(base12, max_order=3), k=4, sample=40 if tier == "quick" else 400, sample_seed=3 + seed, slices=True, two_computations=True)
    # carrier A: the real diagonal solver with masks (deletion of intermediates active there too)
    a1 = dict(carrier="A", hermitian=True, sizes=[2, 1], spectrum=["0", "2", "1"], terms=[[1]], max_order=2, fd=[0])
    a2 = dict(carrier="A", hermitian=True, sizes=[3], spectrum=["0", "1", "2"], terms=[[1]], max_order=3, fd={"0": [[0, 1, 0], [1, 0, 0], [0, 0, 0]]})
    a3 = dict(carrier="A", hermitian=False, sizes=[2, 1], spectrum=["0", "2", "1"], terms=[[1]], max_order=2, fd={"0": [[0, 1], [0, 0]]})
    for a in (a1, a2, a3):
        for c in range(6):
            add(**a, k=2, slices=True, chunk=(c, 6))
        add(**a, k=5, sample=40 if tier == "quick" else 400, sample_seed=7 + seed, slices=True)
    out = [("vf.props.history", "c10", c) for c in cfgs]
    for herm in (True, False):
        for c in range(4):
            out.append(("vf.props.history", "c10_implicit", dict(implicit=True, hermitian=herm, n=3, explicit=[1], basis="complex", spectrum=["0", "2", "3"], max_order=2, chunk=[c, 4])))
        out.append(("vf.props.history", "c10_implicit", dict(implicit=True, hermitian=herm, n=4, explicit=[1, 1], basis="hadamard", spectrum=["0", "2", "3", "7"], max_order=2,
                                                             sample=40 if tier == "quick" else 400, k=4, sample_seed=seed)))
        out.append(("vf.props.history", "c10_formats", dict(formats=True, mode="containers", hermitian=herm)))
        for w in range(3):
            for c in range(4):
                out.append(("vf.props.history", "c10_formats", dict(formats=True, mode="sympy_taylor", hermitian=herm, series=w, max_order=3, chunk=[c, 4])))
    for nf in (2, 3):
        for nb in (1, 2):
            out.append(("vf.props.history", "c10_product", dict(product=True, factors=nf, blocks=nb, factor_order=2, max_order=3,
                                                                 sample=20 if tier == "quick" else 200, sample_seed=seed)))
    for nb in (1, 2):
        out.append(("vf.props.history", "c10_product", dict(product=True, hermitian_product=True, factors=2, blocks=nb, factor_order=2, max_order=3,
                                                             sample=20 if tier == "quick" else 200, sample_seed=seed)))
    return out


def configs_c11(tier, seed):
    from ..configs import CPLX_SPECTRA, RAT_SPECTRA

    cfgs = []
    for herm in (True, False):
        spec2 = RAT_SPECTRA[2] if herm else CPLX_SPECTRA[2]
        spec3 = RAT_SPECTRA[3] if herm else CPLX_SPECTRA[3]
        for sizes, spec in (([1, 1], spec2), ([1, 2], spec3), ([1, 1, 1], spec3)):
            nb = len(sizes)
            base = dict(carrier="B", hermitian=herm, sizes=sizes, spectrum=spec, terms=[[1], [2]], max_order=3 if tier == "thorough" or sizes == [1, 1] else 2)
            mo = base["max_order"]
            triggers = [(0, 0, 0, mo), (1, 0, 1, mo), (2, nb - 1, 0, mo)]
            if tier == "thorough":
                triggers += [(0, nb - 1, nb - 1, mo), (1, 0, 0, mo), (2, 0, nb - 1, mo - 1)]
            for tr in triggers:
                for after in ("same_then_all", "reverse"):
                    cfgs.append(dict(base, trigger=list(tr), after=after))
            cfgs.append(dict(base, trigger=[0, 0, 0, mo], double=True, exceptions=["RuntimeError", "KeyboardInterrupt"]))
            # the interrupted request itself given as slice / list / negative index / finite view
            for form in ("order_slice", "block_slice", "negative", "list", "view"):
                cfgs.append(dict(base, trigger=[1, 0, nb - 1, mo] if form != "block_slice" else [0, 0, nb - 1, mo], trigger_form=form, after="same_then_all",
                                 exceptions=["Exception", "KeyboardInterrupt"] if tier == "quick" else ["Exception", "RuntimeError", "KeyboardInterrupt"]))
    # carrier A: faults in H evaluation and in matrix products while the library's own diagonal solver and masks are active
    for base in (dict(carrier="A", hermitian=True, sizes=[2, 1], spectrum=["0", "2", "1"], terms=[[1]], max_order=2, fd=[0]),
                 dict(carrier="A", hermitian=True, sizes=[3], spectrum=["0", "1", "2"], terms=[[1]], max_order=2 if tier == "quick" else 3,
                      fd={"0": [[0, 1, 0], [1, 0, 0], [0, 0, 0]]}),
                 dict(carrier="A", hermitian=False, sizes=[2, 1], spectrum=["0", "2", "1"], terms=[[1]], max_order=2, fd={"0": [[0, 1], [0, 0]]}),
                 dict(carrier="A", hermitian=True, sizes=[1, 1], spectrum=["0", "2"], terms=[[1], [2]], max_order=3)):
        nb, mo = len(base["sizes"]), base["max_order"]
        for tr in [(0, 0, 0, mo), (1, nb - 1, 0, mo), (2, 0, nb - 1, mo)]:
            for after in ("same_then_all", "reverse"):
                cfgs.append(dict(base, kinds=["H", "matmul"], trigger=list(tr), after=after))
        cfgs.append(dict(base, kinds=["H", "matmul"], trigger=[0, 0, 0, mo], trigger_form="order_slice", after="same_then_all",
                         exceptions=["Exception", "KeyboardInterrupt"]))
    # the Hamiltonian as a lazily defined series whose terms are lists of lists of blocks (unpacked by the library)
    for herm in (True, False):
        base = dict(carrier="B", hermitian=herm, sizes=[1, 2], spectrum=(RAT_SPECTRA if herm else CPLX_SPECTRA)[3], terms=[[1], [2]], max_order=2, input_format="nested")
        for tr in [(0, 0, 0, 2), (1, 0, 1, 2)] + ([(2, 1, 0, 2)] if tier == "thorough" else []):
            cfgs.append(dict(base, trigger=list(tr), after="same_then_all"))
    cfgs.append(dict(carrier="A", hermitian=True, sizes=[2, 1], spectrum=["0", "2", "1"], terms=[[1]], max_order=2, kinds=["H", "matmul"], trigger=[0, 0, 0, 2],
                     after="same_then_all", input_format="nested"))
    return [("vf.props.history", "c11", c) for c in cfgs]
