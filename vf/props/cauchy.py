"""C18: cauchy_dot_product is the multivariate Cauchy product (values, sentinels, hermitian flag, call log)."""
from __future__ import annotations

import itertools
import random

import numpy as np

from .. import bd, symc
from ..engine import Rec

TOL = 1e-9


def _factor_table(cfg):
    """Symbolic initial data of every factor: {t: {(i,j,order): 'Z' | 'O' | ndarray}}."""
    dims = cfg["blockdims"]
    nf = len(dims) - 1
    npar = cfg["nparams"]
    orders = bd.orders_upto(npar, cfg["factor_order"])
    pat = cfg.get("pattern", {})
    tables = []
    for t in range(nf):
        tab = {}
        for i, di in enumerate(dims[t]):
            for j, dj in enumerate(dims[t + 1]):
                for o in orders:
                    key = f"{t},{i},{j}," + ".".join(map(str, o))
                    kind = pat.get(key, "S")
                    if kind == "O" and not (di == dj):
                        kind = "S"
                    if kind == "S":
                        tab[(i, j, *o)] = symc.general(f"f{t}_{i}{j}_" + "".join(map(str, o)) + "_", di, dj)
                    else:
                        tab[(i, j, *o)] = kind
        tables.append(tab)
    return tables


def _to_series(tab, shape, npar, log=None, lazy=False, name="F"):
    from pymablock.series import BlockSeries, one, zero

    def conv(v):
        return zero if isinstance(v, str) and v == "Z" else (one if isinstance(v, str) and v == "O" else v)

    if not lazy:
        data = {k: conv(v) for k, v in tab.items()}
        return BlockSeries(data=data, shape=shape, n_infinite=npar, name=name)
    # lazy variant: declared-absent entries are initial data, everything else goes through a logging eval
    data = {k: conv(v) for k, v in tab.items() if isinstance(v, str) and v == "Z"}

    def ev(*index):
        if log is not None:
            log.append(tuple(index))
        v = tab.get(tuple(index), "Z")
        return conv(v)

    return BlockSeries(eval=ev, data=data, shape=shape, n_infinite=npar, name=name)


def _documented_sentinels(tables, npar):
    """`one` only as the whole zeroth order of a series: diagonal blocks identity, off-diagonal zeroth order absent."""
    zo = (0,) * npar
    for tab in tables:
        has_one = any(isinstance(v, str) and v == "O" for v in tab.values())
        if not has_one:
            continue
        for (i, j, *o), v in tab.items():
            if isinstance(v, str) and v == "O" and (tuple(o) != zo or i != j):
                return False
            if tuple(o) == zo and i != j and not (isinstance(v, str) and v == "Z"):
                return False
    return True


def _dense(v, di, dj):
    if isinstance(v, str):
        return None if v == "Z" else symc.eye(di)
    return v


def _oracle(tables, dims, index):
    """Nested-loop reference: sum over intermediate blocks and order splittings; Z absent, O identity."""
    nf = len(tables)
    i, j, *order = index
    acc = None
    for mids in itertools.product(*(range(len(dims[t])) for t in range(1, nf))):
        chain = (i, *mids, j)
        for comp in bd.compositions(tuple(order), nf):
            term = None
            ok = True
            for t in range(nf):
                v = tables[t].get((chain[t], chain[t + 1], *comp[t]), "Z")
                if isinstance(v, str) and v == "Z":
                    ok = False
                    break
                if isinstance(v, str) and v == "O":
                    continue
                term = v if term is None else symc.mm(term, v)
            if not ok:
                continue
            if term is None:
                term = symc.eye(dims[0][i])
            acc = term if acc is None else acc + term
    if acc is None:
        return symc.zeros(dims[0][i], dims[-1][j])
    return acc


def _lib_dense(v, di, dj):
    from pymablock.series import one, zero

    if v is zero:
        return symc.zeros(di, dj)
    if v is one:
        return symc.eye(di)
    return np.asarray(v, dtype=object)


def _same_entries(A, B):
    """Syntactic identity of two SymC arrays (same z3 terms, same denominators)."""
    A, B = np.asarray(A, dtype=object), np.asarray(B, dtype=object)
    if A.shape != B.shape:
        return False
    for x, y in zip(A.ravel(), B.ravel()):
        x, y = symc.lift(x), symc.lift(y)
        if not (x.re.eq(y.re) and x.im.eq(y.im) and x.den == y.den):
            return False
    return True


def c18(cfg):
    from pymablock.series import BlockSeries, cauchy_dot_product, one, zero

    rec = Rec("C18", cfg)
    dims = cfg["blockdims"]
    nf = len(dims) - 1
    npar = cfg["nparams"]
    mode = cfg.get("mode", "plain")
    if mode == "plain":
        tables = _factor_table(cfg)
    elif mode == "commuting":
        # A Hermitian product that is NOT of the form X^dagger X: A_n = a_n * 1 (real scalar multiples of the identity, one block
        # structure), B_n Hermitian.  Every A_k B_m is Hermitian, hence so is the product; declaring it must not change any value.
        nb = len(dims[0])
        assert dims[0] == dims[1] == dims[2] and nf == 2
        A, B = {}, {}
        for o in bd.orders_upto(npar, cfg["factor_order"]):
            tag = "".join(map(str, o))
            for i in range(nb):
                for j in range(nb):
                    if i == j:
                        A[(i, i, *o)] = symc.eye(dims[0][i]) * symc.SymC(symc.real(f"a_{tag}"))
                        B[(i, i, *o)] = symc.hermitian(f"b{i}{i}_{tag}_", dims[0][i])
                    else:
                        A[(i, j, *o)] = "Z"
                        if i < j:
                            M = symc.general(f"b{i}{j}_{tag}_", dims[0][i], dims[0][j])
                            B[(i, j, *o)] = M
                            B[(j, i, *o)] = symc.dagger(M)
        tables = [A, B]
    else:
        # X^dagger X  or  X^dagger B X  (B Hermitian): tables derived from X (and B)
        xpat = {}
        if cfg.get("x_unit_zeroth"):
            # the documented use of the sentinels: X = 1 + X' (identity on the diagonal blocks at zeroth order, nothing off-diagonal)
            assert dims[-2] == dims[-1]
            zo_s = ".".join(["0"] * npar)
            for i in range(len(dims[-1])):
                for j in range(len(dims[-1])):
                    xpat[f"0,{i},{j},{zo_s}"] = "O" if i == j else "Z"
        base = dict(cfg, blockdims=[dims[-2], dims[-1]], pattern=xpat)
        X = _factor_table(base)[0]
        Xd = {}
        for (i, j, *o), v in X.items():
            Xd[(j, i, *o)] = v if isinstance(v, str) else symc.dagger(v)
        if mode == "XdX":
            tables = [Xd, X]
        else:
            nb = len(dims[1])
            B = {}
            for o in bd.orders_upto(npar, cfg["factor_order"]):
                for a in range(nb):
                    for b in range(a, nb):
                        if a == b:
                            B[(a, a, *o)] = symc.hermitian(f"b{a}{a}_" + "".join(map(str, o)) + "_", dims[1][a])
                        else:
                            M = symc.general(f"b{a}{b}_" + "".join(map(str, o)) + "_", dims[1][a], dims[1][b])
                            B[(a, b, *o)] = M
                            B[(b, a, *o)] = symc.dagger(M)
            tables = [Xd, B, X]
    shapes = [(len(dims[t]), len(dims[t + 1])) for t in range(nf)]
    documented = _documented_sentinels(tables, npar)
    req_orders = bd.orders_upto(npar, cfg["request_order"])
    requests = [(i, j, *o) for o in req_orders for i in range(shapes[0][0]) for j in range(shapes[-1][1])]
    sched = cfg.get("schedule", "asc")
    if sched == "desc":
        requests = requests[::-1]
    elif sched.startswith("rand"):
        random.Random(int(sched[4:] or 0)).shuffle(requests)
    herm_flags = [False] if mode == "plain" else [False, True]
    rec.sample = {"config": cfg, "n_symbolic_reals": None}
    results = {}
    # pristine copies: the oracle never reads the arrays that were handed to the library, and the factors must come back unmodified
    pristine = [{k: (v.copy() if isinstance(v, np.ndarray) else v) for k, v in tab.items()} for tab in tables]
    handed = tables
    tables = pristine
    for hf in herm_flags:
        series = [_to_series(handed[t], shapes[t], npar, name=f"F{t}") for t in range(nf)]
        if cfg.get("mixed_name_containers"):
            # the same parameter names held in a list by one factor and in a tuple by the other (both occur among the library's own outputs)
            for t, S in enumerate(series):
                names = [f"lambda_{k}" for k in range(npar)]
                S.dimension_names = names if t % 2 == 0 else tuple(names)
        try:
            prod = cauchy_dot_product(*series, hermitian=hf)
        except ValueError as e:
            rec.direct_violation(f"cauchy_dot_product rejected compatible factors (hermitian={hf})", f"raised-ValueError:nf={nf}:mode={mode}:params={npar}:definition",
                                 {"exception": str(e)[:200]}, reproduced=True)
            continue
        for idx in requests:
            try:
                lib = prod[idx]
            except (TypeError, RuntimeError) as e:
                if documented or "One" not in repr(e) + repr(getattr(e, "__cause__", "")):
                    from .herm import library_exception_info

                    root = e.__cause__ if isinstance(e, RuntimeError) and e.__cause__ is not None else e
                    is_lib, where = library_exception_info(root)
                    if not is_lib:
                        raise
                    rec.direct_violation(f"product{idx} hermitian={hf} raised", f"raised-{type(root).__name__}:nf={nf}:mode={mode}:params={npar}",
                                         {"exception": f"{type(root).__name__}: {root}"[:300], "where": where, "index": list(idx)}, reproduced=True)
                    break
                # `one` outside its documented use (identity at zeroth order of a series whose zeroth order is otherwise
                # absent): the library refuses loudly (TypeError when adding the sentinel to a matrix) - not a wrong value.
                rec.note(f"sentinel `one` outside documented domain rejected with {type(e).__name__} at {idx}")
                rec.discharged(f"product{idx} hermitian={hf} (rejected loudly, undocumented sentinel use)", "confirmed")
                continue
            ref = _oracle(tables, dims, idx)
            di, dj = dims[0][idx[0]], dims[-1][idx[1]]
            libd = _lib_dense(lib, di, dj)

            def replay(model, idx=idx, hf=hf, prefix=tuple(requests[: requests.index(idx)])):
                return _replay(cfg, tables, dims, shapes, npar, idx, hf, model, prefix=prefix)

            v = rec.oblige(
                f"product{idx} hermitian={hf}", libd, ref,
                sig=f"value:nf={nf}:mode={mode}:hermitian={hf}:params={npar}", replay=replay,
            )
            if v != "structural":
                rec.nontrivial = True
            results[(hf, idx)] = libd
        # the factors' own elements are never modified by evaluating the product (values handed in by the caller)
        modified = []
        for t in range(nf):
            for k, v0 in pristine[t].items():
                if isinstance(v0, str):
                    continue
                cur = series[t][k]
                if cur is not handed[t][k] or not _same_entries(handed[t][k], v0):
                    modified.append([t, list(k)])
        if modified:
            rec.direct_violation(f"evaluating the product (hermitian={hf}) modified elements of its factors", f"factors-modified:nf={nf}:mode={mode}:hermitian={hf}",
                                 {"factor_elements": modified[:6], "hermitian_flag": hf, "note": "cached / caller-owned elements of the factor series changed in place"}, reproduced=True)
            # restore for the next flag
            for t in range(nf):
                for k, v0 in pristine[t].items():
                    if not isinstance(v0, str):
                        handed[t][k] = v0.copy()
        else:
            rec.discharged(f"factor elements unmodified after all product requests (hermitian={hf})", "confirmed")
    rec.sample["n_symbolic_reals"] = len(symc.CTX.vars)
    # call-log obligation (concrete): in a 2-factor product an element of the lazily evaluated factor is requested
    # only if a complementary element of the other factor is not declared absent.
    if nf == 2 and mode == "plain":
        for lazy_side in (0, 1):
            log = []
            series = [
                _to_series(tables[t], shapes[t], npar, log=log if t == lazy_side else None, lazy=(t == lazy_side), name=f"F{t}")
                for t in range(nf)
            ]
            prod = cauchy_dot_product(*series)
            other = tables[1 - lazy_side]
            bad = []
            for idx in requests:
                i, j, *o = idx
                allowed = set()
                # elements of the lazy factor which have a declared-present complementary partner for this request
                for m in range(len(dims[1])):
                    for comp in bd.compositions(tuple(o), 2):
                        li = (i, m, *comp[0]) if lazy_side == 0 else (m, j, *comp[1])
                        oi = (m, j, *comp[1]) if lazy_side == 0 else (i, m, *comp[0])
                        ov = other.get(oi, "undeclared")  # only entries of the initial data are *declared* absent
                        if not (isinstance(ov, str) and ov == "Z"):
                            allowed.add(li)
                before = len(log)
                try:
                    prod[idx]
                except (TypeError, RuntimeError):
                    if documented:
                        raise
                    continue  # undocumented sentinel use rejected loudly (see above)
                for call in log[before:]:
                    if call not in allowed:
                        bad.append((idx, call))
            dup = len(log) - len(set(log))
            if bad:
                rec.direct_violation(
                    f"calllog lazy_side={lazy_side}", f"calllog:nf=2:side={lazy_side}",
                    {"unneeded_evaluations": [list(map(list, b)) for b in bad[:5]]},
                )
            elif dup:
                rec.direct_violation(f"calllog-dup lazy_side={lazy_side}", f"calllog-dup:side={lazy_side}", {"duplicates": dup})
            else:
                rec.discharged(f"calllog lazy_side={lazy_side} ({len(log)} evaluations, all needed, none repeated)", "confirmed")
    from .. import solver

    rec.guard("assumptions_sat", solver.assumptions_sat() == "sat")
    # reachability twin: the highest requested element differs from zero / from a product with one factor negated
    last = requests[-1] if sched == "asc" else max(requests, key=lambda r: (sum(r[2:]), r))
    ref = _oracle(tables, dims, last)
    if symc.differs_clauses(ref):
        rec.guard_twin("twin_nonzero", ref, symc.zeros(*ref.shape))
    return rec


def _replay(cfg, tables, dims, shapes, npar, idx, hf, model, prefix=()):
    """Concrete numpy run of the real cauchy_dot_product at the model point; oracle in plain numpy."""
    from pymablock.series import BlockSeries, cauchy_dot_product, one, zero

    nf = len(tables)

    def num(v):
        if isinstance(v, str):
            return v
        return np.array([[complex(*map(float, bd.evaluate(x, model))) for x in row] for row in v])

    ntab = [{k: num(v) for k, v in tab.items()} for tab in tables]
    series = []
    for t in range(nf):
        data = {k: (zero if isinstance(v, str) and v == "Z" else one if isinstance(v, str) else v) for k, v in ntab[t].items()}
        series.append(BlockSeries(data=data, shape=shapes[t], n_infinite=npar))
    prod = cauchy_dot_product(*series, hermitian=hf)
    oracle_tab = [{k: (v.copy() if isinstance(v, np.ndarray) else v) for k, v in tab.items()} for tab in ntab]
    for earlier in prefix:  # the same request history as in the symbolic run
        try:
            prod[earlier]
        except Exception:  # noqa: BLE001
            pass
    lib = prod[idx]
    ntab = oracle_tab
    i, j, *order = idx
    di, dj = dims[0][i], dims[-1][j]
    lib = np.zeros((di, dj)) if lib is zero else (np.eye(di) if lib is one else np.asarray(lib))
    acc = np.zeros((di, dj), dtype=complex)
    for mids in itertools.product(*(range(len(dims[t])) for t in range(1, nf))):
        chain = (i, *mids, j)
        for comp in bd.compositions(tuple(order), nf):
            term = np.eye(di, dtype=complex)
            ok = True
            for t in range(nf):
                v = ntab[t].get((chain[t], chain[t + 1], *comp[t]), "Z")
                if isinstance(v, str) and v == "Z":
                    ok = False
                    break
                if isinstance(v, str):
                    continue
                term = term @ v
            if ok:
                acc = acc + term
    err = float(np.max(np.abs(lib - acc)))
    return err > TOL * max(1.0, float(np.max(np.abs(acc)))), {"index": list(idx), "hermitian": hf, "max_abs_error": err}


# ------------------------------------------------------------------------------------------------


def configs(tier, seed):
    cfgs = []

    def add(**kw):
        kw.setdefault("nparams", 1)
        kw.setdefault("factor_order", 1)
        kw.setdefault("request_order", 2)
        cfgs.append(kw)

    two = [[1, 2], [2, 1], [1, 2]]  # factor0: blocks (1,2)x(2,1); factor1: (2,1)x(1,2)
    sq = [[1, 1], [1, 1], [1, 1]]
    # all-symbolic products: 2..4 factors, 1..3 parameters, rectangular blocks, three request schedules
    for sched in ("asc", "desc", "rand1"):
        add(blockdims=two, schedule=sched)
        add(blockdims=[[2, 1], [1, 2], [2], [1, 1]], schedule=sched)
        add(blockdims=[[1, 1]] * 5, schedule=sched, request_order=3 if tier == "thorough" else 2)
        add(blockdims=two, nparams=2, schedule=sched)
        add(blockdims=[[1], [1, 1], [1]], nparams=3, schedule=sched, request_order=2)
    add(blockdims=[[1, 2, 1], [2, 1, 1], [1, 1, 2]], request_order=2)
    add(blockdims=sq, factor_order=2, request_order=3)
    # sentinel patterns on the 2x2-block grid (orders 0,1 of both factors): every single cell Z, every diagonal cell O,
    # every pair (Z,Z) / (Z,O) / (O,O) of cells in different factors
    cells = [f"{t},{i},{j},{o}" for t in range(2) for i in range(2) for j in range(2) for o in (0, 1)]
    diag = [c for c in cells if c.split(",")[1] == c.split(",")[2]]
    for c in cells:
        add(blockdims=sq, pattern={c: "Z"})
    for c in diag:
        add(blockdims=sq, pattern={c: "O"})
    pairs = []
    for a in cells:
        for b in cells:
            if a < b and a[0] != b[0]:
                pairs.append({a: "Z", b: "Z"})
                if b in diag:
                    pairs.append({a: "Z", b: "O"})
                if a in diag:
                    pairs.append({a: "O", b: "Z"})
                if a in diag and b in diag:
                    pairs.append({a: "O", b: "O"})
    rnd = random.Random(12345)
    if tier == "quick":
        rnd.shuffle(pairs)
        pairs = pairs[:60]
    for p in pairs:
        add(blockdims=sq, pattern=p)
    # the standard unitary-like start pattern: zeroth order = identity sentinels on the diagonal, absent off-diagonal
    ident = {f"{t},{i},{j},0": ("O" if i == j else "Z") for t in range(3) for i in range(2) for j in range(2)}
    add(blockdims=sq, pattern={k: v for k, v in ident.items() if k[0] in "01"}, factor_order=2, request_order=3)
    add(blockdims=[[1, 1]] * 4, pattern=ident, factor_order=1, request_order=2)
    add(blockdims=[[2, 1], [2, 1], [2, 1]], pattern={k: v for k, v in ident.items() if k[0] in "01"}, factor_order=1, request_order=2)
    # random dense sentinel patterns (fixed generator + VERIF_SEED extras)
    for gen, n in ((rnd, 40 if tier == "quick" else 400), (random.Random(1000 + seed), 10 if tier == "quick" else 100)):
        for _ in range(n):
            pat = {}
            for c in cells:
                r = gen.random()
                if r < 0.3:
                    pat[c] = "Z"
                elif r < 0.45 and c in diag:
                    pat[c] = "O"
            add(blockdims=sq, pattern=pat, schedule=gen.choice(["asc", "desc", "rand3"]))
    # hermitian=True on Hermitian products
    for sched in ("asc", "desc"):
        add(blockdims=[[1, 1], [1, 2], [1, 1]], mode="XdX", schedule=sched)
        add(blockdims=[[1, 1], [2, 1], [2, 1], [1, 1]], mode="XdBX", schedule=sched)
        add(blockdims=[[1, 1], [1, 1], [1, 1]], mode="XdX", nparams=2, schedule=sched)
        add(blockdims=[[1, 1], [1, 1], [1, 1], [1, 1]], mode="XdBX", nparams=2, schedule=sched)
    add(blockdims=[[1, 1], [1, 2], [1, 1]], nparams=2, mixed_name_containers=True)
    # no perturbation parameter at all (n_infinite = 0): the product is the plain block product
    add(blockdims=[[1, 2], [2, 1], [1, 1]], nparams=0, request_order=0, factor_order=0)
    add(blockdims=[[1, 1], [1, 2], [1, 1], [2]], nparams=0, request_order=0, factor_order=0)
    # a Hermitian product whose second factor is not the adjoint of the first
    add(blockdims=[[1, 2], [1, 2], [1, 2]], mode="commuting", request_order=2, factor_order=2)
    add(blockdims=[[2], [2], [2]], mode="commuting", request_order=2, factor_order=2)
    for sched in ("asc", "desc", "rand1"):
        add(blockdims=[[1, 2], [1, 2], [1, 2]], mode="XdX", schedule=sched, x_unit_zeroth=True)
        add(blockdims=[[1, 1], [1, 1], [1, 1]], mode="XdX", nparams=2, schedule=sched, x_unit_zeroth=True)
        add(blockdims=[[2, 1], [2, 1], [2, 1], [2, 1]], mode="XdBX", schedule=sched, x_unit_zeroth=True)
    if tier == "thorough":
        add(blockdims=[[1, 1, 2], [1, 1, 2], [1, 1, 2]], mode="XdX", request_order=3, factor_order=2, x_unit_zeroth=True)
        add(blockdims=[[1, 2, 1], [2, 1, 1], [1, 1, 2]], request_order=3, factor_order=2)
        add(blockdims=[[2, 2]] * 4, request_order=3, factor_order=1)
        add(blockdims=[[1, 1]] * 3, nparams=3, request_order=3)
        add(blockdims=[[1, 1], [1, 2], [1, 1]], mode="XdX", request_order=3, factor_order=2)
        add(blockdims=[[1, 1], [2, 1], [2, 1], [1, 1]], mode="XdBX", request_order=3, factor_order=1)
        add(blockdims=[[1, 1, 1], [1, 1, 1], [1, 1, 1]], mode="XdX", request_order=3)
    return [("vf.props.cauchy", "c18", c) for c in cfgs]
