"""C14: all input formats / subspace designations / eigenbases give the same H_tilde, U, U_inv; operator_to_BlockSeries = L^dagger A R."""
from __future__ import annotations

from fractions import Fraction

import numpy as np

from .. import bd, symc
from .. import sympy_bridge as sb
from ..engine import Rec
from ..symc import SymC

TOL = 1e-7
NAMES = ["Ht", "U", "Uinv"]

# rational unitaries (orthogonal / complex) used as eigenbases
Q2 = [[Fraction(3, 5), Fraction(-4, 5)], [Fraction(4, 5), Fraction(3, 5)]]


def _Q(N, kind):
    import sympy

    Q = sympy.eye(N)
    if kind == "real":
        for a in range(2):
            for b in range(2):
                Q[a, b] = sympy.Rational(Q2[a][b].numerator, Q2[a][b].denominator)
        if N >= 3:
            # second rotation mixing states 1,2 (5-12-13)
            R = sympy.eye(N)
            R[1, 1], R[1, 2], R[2, 1], R[2, 2] = sympy.Rational(5, 13), sympy.Rational(-12, 13), sympy.Rational(12, 13), sympy.Rational(5, 13)
            Q = Q * R
    else:  # complex unitary: diag phases (3+4i)/5 times the real one
        Q = _Q(N, "real")
        D = sympy.eye(N)
        D[0, 0] = sympy.Rational(3, 5) + sympy.I * sympy.Rational(4, 5)
        D[N - 1, N - 1] = sympy.Rational(5, 13) - sympy.I * sympy.Rational(12, 13)
        Q = D * Q
    return Q


def _taylor(kind, nmax):
    """Taylor coefficients c_1..c_nmax of the analytic dependence f(l) with f(0)=0."""
    import sympy

    l = sympy.Symbol("l0", real=True)
    f = {"geom": l / (1 - l), "exp": sympy.exp(l) - 1, "square": l**2 + l, "sin": sympy.sin(l)}[kind]
    cs = []
    for n in range(1, nmax + 1):
        cs.append(sympy.Rational(sympy.diff(f, l, n).subs(l, 0), sympy.factorial(n)))
    return f, cs


def _library_outputs(P, fmt, cfg):
    """Run the real block_diagonalize on format `fmt` of problem P (sympy values). Returns (series, monomial_factor)."""
    import sympy
    from pymablock import block_diagonalize
    from pymablock.series import BlockSeries, zero

    ham = P.sympy_inputs()
    zo = P.zero_order
    npar = P.nparams
    lam = [sympy.Symbol(f"l{k}", real=True) for k in range(npar)]
    idx = list(P.blockof)
    kw = dict(hermitian=P.hermitian, **P.fd_kwarg())
    mono = False
    if fmt == "dict_tuple":
        return block_diagonalize(dict(ham), subspace_indices=idx, **kw), mono
    if fmt == "list":
        units = [tuple(int(i == k) for i in range(npar)) for k in range(npar)]
        assert sorted(o for o in ham if o != zo) == sorted(units), "list format carries first-order terms only"
        return block_diagonalize([ham[zo]] + [ham[u] for u in units], subspace_indices=idx, **kw), mono
    if fmt == "dict_monomial":
        d = {}
        for o, M in ham.items():
            key = sympy.S.One
            for k, n in enumerate(o):
                key = key * lam[k] ** n
            d[key] = M
        return block_diagonalize(d, subspace_indices=idx, **kw), mono
    if fmt == "sympy_matrix":
        H = sympy.zeros(P.N, P.N)
        for o, M in ham.items():
            f = sympy.S.One
            for k, n in enumerate(o):
                f = f * lam[k] ** n
            H = H + f * M
        return block_diagonalize(H, subspace_indices=idx, symbols=lam, **kw), True
    if fmt.startswith("analytic_"):
        f, _ = _taylor(fmt.split("_", 1)[1], 1)
        H = ham[zo] + f * ham[(1,)]
        return block_diagonalize(H, subspace_indices=idx, symbols=lam, **kw), True
    if fmt == "blocks":
        off = P.off

        def split(M):
            return [[M[off[i] : off[i + 1], off[j] : off[j + 1]] for j in range(P.nb)] for i in range(P.nb)]

        return block_diagonalize({o: split(M) for o, M in ham.items()}, **kw), mono
    if fmt == "blockseries":
        off = P.off

        def ev(i, j, *order):
            M = ham.get(tuple(order))
            if M is None:
                return zero
            if tuple(order) == zo and i != j:
                return zero
            return M[off[i] : off[i + 1], off[j] : off[j + 1]]

        H = BlockSeries(eval=ev, shape=(P.nb, P.nb), n_infinite=npar, name="H")
        return block_diagonalize(H, **kw), mono
    if fmt == "eigvec_identity":
        I = sympy.eye(P.N)
        vecs = [I[:, list(range(P.off[b], P.off[b + 1]))] for b in range(P.nb)]
        return block_diagonalize(dict(ham), subspace_eigenvectors=vecs, **kw), mono
    if fmt in ("eigvec_real", "eigvec_complex"):
        Q = _Q(P.N, fmt.split("_")[1])
        Qd = Q.H
        lab = {o: (Q * M * Qd).applyfunc(sympy.expand) for o, M in ham.items()}
        vecs = [Q[:, list(range(P.off[b], P.off[b + 1]))] for b in range(P.nb)]
        return block_diagonalize(lab, subspace_eigenvectors=vecs, **kw), mono
    if fmt == "eigvec_biorthogonal":
        # non-unitary similarity: H_lab = S H S^-1, right vectors S[:, block], left vectors (S^-1)^dagger[:, block]
        S = sympy.eye(P.N)
        S[0, 1] = sympy.Rational(1, 2)
        S[P.N - 1, 0] = sympy.Rational(-2, 3)
        if P.N >= 3:
            S[1, 2] = sympy.Rational(3, 4)
        Si = S.inv()
        lab = {o: (S * M * Si).applyfunc(sympy.expand) for o, M in ham.items()}
        L = Si.H
        vecs = [(S[:, list(range(P.off[b], P.off[b + 1]))], L[:, list(range(P.off[b], P.off[b + 1]))]) for b in range(P.nb)]
        return block_diagonalize(lab, subspace_eigenvectors=vecs, **kw), mono
    raise KeyError(fmt)


def _numeric_format_run(P, fmt, cfg, model):
    """Concrete replay: the same format with exact rational sympy values at the model point (public API)."""
    import sympy

    def q(x):
        re, im = bd.evaluate(x, model)
        return sympy.Rational(re.numerator, re.denominator) + sympy.I * sympy.Rational(im.numerator, im.denominator)

    class PP:
        pass

    # build a concrete Problem-like object sharing structure with P
    Pc = bd.Problem(dict(P.cfg, carrier="C"), E=[SymC(symc._rv(bd.evaluate(e, model)[0]), symc._rv(bd.evaluate(e, model)[1])) for e in P.E],
                    classes=P.classes,
                    terms_data={o: np.array([[SymC(symc._rv(bd.evaluate(x, model)[0]), symc._rv(bd.evaluate(x, model)[1])) for x in row] for row in M], dtype=object)
                                for o, M in P.H.data.items() if o != P.zero_order})
    Pc._tr = sb.Translator()
    Pc._sym_pairs = []
    return Pc


def c14(cfg):
    import sympy

    rec = Rec("C14", cfg)
    fmt = cfg["format"]
    P = bd.Problem(dict(cfg, carrier="C"))
    P._tr = sb.Translator()
    P._sym_pairs = []
    # reference: tuple-key dict + subspace_indices (the form validated by C01-C05); for analytic formats the exact Taylor coefficients
    if fmt.startswith("analytic_"):
        _, cs = _taylor(fmt.split("_", 1)[1], P.max_order)
        h1 = P.H.data[(1,)]
        terms_ref = {}
        for n, c in enumerate(cs, start=1):
            if c != 0:
                terms_ref[(n,)] = h1 * SymC(symc._rv(Fraction(int(c.p), int(c.q))))
        Pref = bd.Problem(dict(cfg, carrier="C"), E=P.E, classes=P.classes, terms_data=terms_ref)
    else:
        Pref = P
    ref_series = Pref._run_C()
    ref = [{o: Pref.full(S, o) for o in P.orders} for S in ref_series]
    series, mono = _library_outputs(P, fmt, cfg)
    lam = [SymC(symc.real(f"l{k}")) for k in range(P.nparams)]
    sig = f"format={fmt}:herm={P.hermitian}:sizes={'|'.join(map(str, P.sizes))}:fd={'none' if cfg.get('fd') is None else 'yes'}"

    def replay_for(w, o):
        def replay(model):
            # exact rational replay of both formats through the public API
            Pc = _numeric_format_run(P, fmt, cfg, model)
            if fmt.startswith("analytic_"):
                _, cs = _taylor(fmt.split("_", 1)[1], P.max_order)
                h1 = Pc.H.data[(1,)]
                tr_ = {(n,): h1 * SymC(symc._rv(Fraction(int(c.p), int(c.q)))) for n, c in enumerate(cs, start=1) if c != 0}
                Pr = bd.Problem(dict(cfg, carrier="C"), E=Pc.E, classes=P.classes, terms_data=tr_)
            else:
                Pr = Pc
            a = Pr.full(Pr._run_C()[w], o)
            sc, mono_c = _library_outputs(Pc, fmt, cfg)
            b = Pc.full(sc[w], o)
            lamv = {f"l{k}": Fraction(1) for k in range(P.nparams)}
            diff = 0.0
            for x, y in zip(np.asarray(a).flat, np.asarray(b).flat):
                xv = bd.evaluate(x, lamv)
                yv = bd.evaluate(y, lamv)
                diff = max(diff, abs(complex(float(xv[0] - yv[0]), float(xv[1] - yv[1]))))
            return diff > TOL, {"series": NAMES[w], "order": list(o), "format": fmt, "max_abs_error": diff}

        return replay

    bad = set()
    for o in P.orders:
        for w in range(3):
            if w in bad:
                continue
            lib = P.full(series[w], o)
            want = ref[w][o]
            if mono:
                f = SymC(symc.R1)
                for k, n in enumerate(o):
                    f = f * lam[k] ** n
                want = want * f
            v = rec.oblige(f"{NAMES[w]} order={o}", lib, want, sig=sig + ":" + NAMES[w], replay=replay_for(w, o))
            if v == "sat":
                bad.add(w)
            if v != "structural" and sum(o) >= 1:
                rec.nontrivial = True
    from .. import solver

    rec.guard("assumptions_sat", solver.assumptions_sat() == "sat")
    ok = P.validate_translation(seed=int(cfg.get("_seed", 0)))
    rec.guard("sympy_translation_validated", ok is not False, ok)
    rec.sample = {"config": cfg, "n_symbolic_reals": len(symc.CTX.vars)}
    return rec


def c14_operator(cfg):
    """operator_to_BlockSeries returns exactly the blocks L_i^dagger A R_j."""
    import sympy
    from pymablock import operator_to_BlockSeries
    from pymablock.series import zero

    rec = Rec("C14", cfg)
    sizes = cfg["sizes"]
    N = sum(sizes)
    off = np.cumsum([0] + sizes)
    kind = cfg["basis"]
    herm = cfg.get("hermitian", False)
    A0 = symc.hermitian("a0_", N) if herm else symc.general("a0_", N)
    A1 = symc.hermitian("a1_", N) if herm else symc.general("a1_", N)
    tr = sb.Translator()
    if kind in ("real", "complex"):
        Q = _Q(N, kind)
        R = L = Q
    else:
        S = sympy.eye(N)
        S[0, 1] = sympy.Rational(1, 2)
        S[N - 1, 0] = sympy.Rational(-2, 3)
        R, L = S, S.inv().H
    vecs = []
    for b in range(len(sizes)):
        cols = list(range(off[b], off[b + 1]))
        vecs.append(R[:, cols] if kind != "biorthogonal" else (R[:, cols], L[:, cols]))
    op = {(0,): sb.matrix_to_sympy(A0), (1,): sb.matrix_to_sympy(A1)}
    S_ = operator_to_BlockSeries(op, subspace_eigenvectors=vecs, hermitian=herm, name="A")
    Rz, Lz = sb.matrix_to_symc(R, tr), sb.matrix_to_symc(L, tr)
    for n, A in ((0, A0), (1, A1)):
        want = symc.mm(symc.mm(symc.dagger(Lz), A), Rz)
        for i in range(len(sizes)):
            for j in range(len(sizes)):
                v = S_[(i, j, n)]
                lib = symc.zeros(sizes[i], sizes[j]) if v is zero else sb.matrix_to_symc(sympy.Matrix(v), tr)
                x = rec.oblige(f"block[{i},{j},{n}] == L^dagger A R", lib, want[off[i] : off[i + 1], off[j] : off[j + 1]],
                               sig=f"operator_to_BlockSeries:basis={kind}:herm={herm}", replay=lambda model: (True, {"note": "exact symbolic identity of the public function output"}))
                if x != "structural":
                    rec.nontrivial = True
    rec.sample = {"config": cfg}
    return rec


def c14_sparse_dense(cfg):
    """scipy.sparse-valued input gives the same numbers as dense input (sparse values cannot carry symbolic payloads, so this
    sub-claim is decided by exhaustive concrete enumeration of an integer domain; the dense path itself is solver-verified)."""
    import itertools
    import warnings

    from pymablock import block_diagonalize
    from pymablock.series import one, zero
    from scipy import sparse

    rec = Rec("C14", cfg)
    N, herm, maxo = cfg["N"], cfg.get("hermitian", True), cfg.get("max_order", 3)
    rng = np.random.default_rng(3)
    H1 = rng.integers(1, 5, (N, N)).astype(float) * rng.choice([-1.0, 1.0], (N, N))
    H1 = H1 + H1.T if herm else H1
    H1[H1 == 0] = 1.0
    H2 = np.diag(np.arange(1.0, N + 1))
    scale = float(cfg.get("scale", 1.0))  # exact power of two: results scale exactly; small values probe the zero tolerance
    H1, H2 = H1 * scale, H2 * scale  # every INPUT block stays above the documented zero tolerance atol = 1e-12
    FORMATS = ["dense", "sparse", "sparse_h1_only"] + (["blocks_dense", "blocks_csr_array", "blocks_coo_array", "blocks_csr_matrix", "blocks_coo_matrix", "blocks_mixed_h2_matrix", "blocks_mixed_h1_matrix", "blocks_mixed_h1_array", "blockseries_explicit_zeros", "blockseries_csr_matrix"] if cfg.get("blocked") else [])
    cases = bad = 0
    first = None
    assignments = [a for a in itertools.product(range(cfg["nblocks"]), repeat=N) if all(a[k] <= max(a[:k], default=-1) + 1 for k in range(N))]
    for spec in itertools.product(range(3), repeat=N):
        for blocks in assignments:
            nb = max(blocks) + 1
            if any(blocks[a] != blocks[b] and spec[a] == spec[b] for a in range(N) for b in range(N)) or not any(spec):
                continue
            for fdk in ("none", "all", "mask"):
                if fdk == "none":
                    fd = ()
                elif fdk == "all":
                    fd = tuple(range(nb))
                else:
                    idx0 = [k for k in range(N) if blocks[k] == 0]
                    if len(idx0) < 2:
                        continue
                    m = np.array([[spec[a] != spec[b] for b in idx0] for a in idx0], dtype=bool)
                    if len(idx0) >= 3 and m[0, 1]:
                        m[0, 1] = m[1, 0] = False
                    fd = {0: m}
                cases += 1
                H0 = np.diag(np.array(spec, dtype=float))
                outs = []
                with warnings.catch_warnings():
                    warnings.simplefilter("ignore")
                    for fmt in FORMATS:
                        kw = dict(subspace_indices=list(blocks))
                        if fmt == "dense":
                            ham = {(0,): H0, (1,): H1.copy(), (2,): H2.copy()}
                        elif fmt == "sparse":
                            ham = {(0,): sparse.csr_array(H0), (1,): sparse.csr_array(H1), (2,): sparse.csr_array(H2)}
                        elif fmt == "sparse_h1_only":
                            ham = {(0,): H0, (1,): sparse.coo_array(H1), (2,): H2.copy()}
                        elif fmt == "blockseries_csr_matrix":
                            # a ready-made block BlockSeries of legacy sparse matrices (reaches the algorithm without any conversion)
                            from pymablock.series import BlockSeries
                            from pymablock.series import zero as _zero

                            sel = [[k for k in range(N) if blocks[k] == b] for b in range(nb)]
                            mats = {0: H0, 1: H1, 2: H2}

                            def ev(i, j, n, sel=sel, mats=mats):
                                M = mats.get(int(n))
                                if M is None or (int(n) == 0 and i != j):
                                    return _zero
                                B = np.array(M[np.ix_(sel[i], sel[j])])
                                return _zero if not B.any() else sparse.csr_matrix(B)

                            ham = BlockSeries(eval=ev, shape=(nb, nb), n_infinite=1)
                            kw = {}
                        elif fmt == "blockseries_explicit_zeros":
                            # a ready-made block BlockSeries whose vanishing blocks are ordinary zero matrices, not the sentinel
                            from pymablock.series import BlockSeries

                            sel = [[k for k in range(N) if blocks[k] == b] for b in range(nb)]
                            mats = {0: H0, 1: H1, 2: H2}

                            def ev(i, j, n, sel=sel, mats=mats):
                                M = mats.get(int(n))
                                if M is None:
                                    return np.zeros((len(sel[i]), len(sel[j])))
                                return np.array(M[np.ix_(sel[i], sel[j])])

                            ham = BlockSeries(eval=ev, shape=(nb, nb), n_infinite=1)
                            kw = {}
                        else:
                            # pre-blocked input (nested lists of blocks reach the algorithm unprojected) with every container type
                            convs = {"blocks_dense": (np.array,) * 3, "blocks_csr_array": (sparse.csr_array,) * 3, "blocks_coo_array": (sparse.coo_array,) * 3,
                                     "blocks_csr_matrix": (sparse.csr_matrix,) * 3, "blocks_coo_matrix": (sparse.coo_matrix,) * 3,
                                     # container types mixed between the orders (sums of a sparse matrix and an array are np.matrix objects)
                                     "blocks_mixed_h2_matrix": (np.array, np.array, sparse.csr_matrix), "blocks_mixed_h1_matrix": (np.array, sparse.csr_matrix, np.array),
                                     "blocks_mixed_h1_array": (np.array, sparse.csr_array, np.array)}[fmt]
                            sel = [[k for k in range(N) if blocks[k] == b] for b in range(nb)]

                            def split(M, conv, sel=sel):
                                return [[conv(M[np.ix_(sel[i], sel[j])]) for j in range(nb)] for i in range(nb)]

                            ham = {(0,): split(H0, convs[0]), (1,): split(H1, convs[1]), (2,): split(H2, convs[2])}
                            kw = {}
                        vals = {}
                        try:
                            res = block_diagonalize(ham, fully_diagonalize=fd, hermitian=herm, **kw)
                            raw = {(w, i, j, n): S[(i, j, n)] for w, S in enumerate(res) for n in range(maxo + 1) for i in range(nb) for j in range(nb)}
                        except Exception as e:  # noqa: BLE001
                            from .herm import library_exception_info

                            is_lib, where = library_exception_info(e, pure_inputs=True)
                            if not is_lib:
                                raise
                            bad += 1
                            first = first or {"spectrum": list(spec), "subspace_indices": list(blocks), "fully_diagonalize": fdk, "format": fmt,
                                              "raised": f"{type(e).__name__}: {e}"[:200], "where": where, "hermitian": herm}
                            outs.append(None)
                            continue
                        for w, S in enumerate(res):
                            for n in range(maxo + 1):
                                for i in range(nb):
                                    for j in range(nb):
                                        v = raw[(w, i, j, n)]
                                        di, dj = blocks.count(i), blocks.count(j)
                                        if v is zero:
                                            v = np.zeros((di, dj))
                                        elif v is one:
                                            v = np.eye(di)
                                        elif hasattr(v, "toarray"):
                                            v = v.toarray()
                                        vals[(w, i, j, n)] = np.asarray(v, dtype=complex)
                        outs.append(vals)
                for k in (outs[0] or {}):
                    for other, nm in zip(outs[1:], FORMATS[1:]):
                        if other is None:
                            continue
                        a, b = outs[0][k], other[k]
                        sc = max(scale ** max(k[3], 1) * 1e-3, float(np.max(np.abs(a))) if a.size else 0.0)
                        if a.shape != b.shape or not np.all(np.isfinite(b)) or np.max(np.abs(a - b), initial=0.0) > 1e-9 * sc:
                            bad += 1
                            first = first or {"spectrum": list(spec), "subspace_indices": list(blocks), "fully_diagonalize": fdk, "format": nm,
                                              "element": [NAMES[k[0]], *k[1:]], "hermitian": herm}
    if first:
        rec.direct_violation(f"sparse-valued input differs from dense input: {first}", f"sparse-vs-dense:herm={herm}:fd={first['fully_diagonalize']}", dict(first, differing_elements=bad, cases=cases))
    else:
        rec.discharged(f"{cases} integer problems (N={N}): sparse-valued and dense-valued inputs give identical H_tilde, U, U_inv to order {maxo}", "confirmed")
    rec.obligations[-1]["cases"] = cases
    rec.nontrivial = True
    rec.sample = {"config": cfg, "cases": cases}
    return rec


def c14_sparse_vectors(cfg):
    """subspace_eigenvectors given as scipy.sparse matrices (real / complex) == the same vectors given densely == rotating first
    (numeric: sparse containers cannot carry symbolic payloads; exactly representable inputs, enumerated bases)."""
    import warnings

    from pymablock import block_diagonalize, operator_to_BlockSeries
    from pymablock.series import one, zero
    from scipy import sparse

    rec = Rec("C14", cfg)
    herm = cfg.get("hermitian", True)
    n = 4
    E = np.array([-2.0, -1.0, 1.5, 3.0])
    rng = np.random.default_rng(5)
    H1 = rng.integers(-3, 4, (n, n)) + 1j * rng.integers(-3, 4, (n, n))
    H1 = (H1 + H1.conj().T) if herm else H1
    bases = {
        "identity": np.eye(n, dtype=complex),
        "phases": np.diag([1, 1j, 1, -1j]).astype(complex),
        "perm_phases": np.diag([1j, 1, -1, 1j]).astype(complex)[:, [2, 0, 3, 1]],
        "complex_pair": np.block([[np.array([[1 + 1j, 1 - 1j], [1 - 1j, 1 + 1j]]) / 2, np.zeros((2, 2))], [np.zeros((2, 2)), np.eye(2)]]),
        "hadamard": np.array([[1, 1, 1, 1], [1, 1, -1, -1], [1, -1, 1, -1], [1, -1, -1, 1]], dtype=complex) / 2,
    }
    splits = [[2, 2], [1, 3], [1, 1, 2]]
    first = None
    cases = 0
    with warnings.catch_warnings():
        warnings.simplefilter("ignore")
        for bname, Q in bases.items():
            H0 = (Q * E) @ Q.conj().T
            for sizes in splits:
                off = np.cumsum([0] + sizes)
                dense_vecs = [Q[:, off[b] : off[b + 1]] for b in range(len(sizes))]
                ref = block_diagonalize([H0, H1.astype(complex)], subspace_eigenvectors=dense_vecs, hermitian=herm)
                for fmt in ("csr", "csc", "coo"):
                    conv = {"csr": sparse.csr_array, "csc": sparse.csc_array, "coo": sparse.coo_array}[fmt]
                    sv = [conv(v) for v in dense_vecs]
                    cases += 1
                    try:
                        out = block_diagonalize([H0, H1.astype(complex)], subspace_eigenvectors=sv, hermitian=herm)
                        blocks = operator_to_BlockSeries([H0, H1.astype(complex)], subspace_eigenvectors=sv, hermitian=herm)
                    except Exception as e:
                        first = first or {"basis": bname, "sizes": sizes, "format": fmt, "raised": f"{type(e).__name__}: {e}"[:200]}
                        continue
                    for w in range(3):
                        for o in range(3):
                            for i in range(len(sizes)):
                                for j in range(len(sizes)):
                                    def dn(v, di, dj):
                                        if v is zero:
                                            return np.zeros((di, dj), dtype=complex)
                                        if v is one:
                                            return np.eye(di, dtype=complex)
                                        return np.asarray(v.toarray() if hasattr(v, "toarray") else v, dtype=complex)
                                    a = dn(ref[w][(i, j, o)], sizes[i], sizes[j])
                                    b = dn(out[w][(i, j, o)], sizes[i], sizes[j])
                                    if np.max(np.abs(a - b), initial=0) > 1e-9 * max(1.0, np.max(np.abs(a), initial=0)):
                                        first = first or {"basis": bname, "sizes": sizes, "format": fmt, "element": [NAMES[w], i, j, o], "max_abs_error": float(np.max(np.abs(a - b)))}
                    for i in range(len(sizes)):
                        for j in range(len(sizes)):
                            v = blocks[(i, j, 1)]
                            v = np.zeros((sizes[i], sizes[j])) if v is zero else np.asarray(v.toarray() if hasattr(v, "toarray") else v)
                            want = dense_vecs[i].conj().T @ H1 @ dense_vecs[j]
                            if np.max(np.abs(v - want), initial=0) > 1e-9:
                                first = first or {"basis": bname, "sizes": sizes, "format": fmt, "operator_to_BlockSeries_block": [i, j], "max_abs_error": float(np.max(np.abs(v - want)))}
    if first:
        rec.direct_violation(f"sparse eigenvector matrices differ from dense ones: {first}", f"sparse-eigenvectors:herm={herm}:basis={first['basis']}", dict(first, cases=cases))
    else:
        rec.discharged(f"{cases} (basis, split, sparse format) cases: sparse eigenvector matrices give the dense results and L^dagger A R blocks", "confirmed")
    rec.obligations[-1]["cases"] = cases
    rec.nontrivial = True
    rec.sample = {"config": cfg, "cases": cases}
    return rec


def configs(tier):
    from ..configs import RAT_SPECTRA, RAT_SPECTRA_ALT

    cfgs = []
    formats_1p = ["list", "dict_monomial", "sympy_matrix", "blocks", "blockseries", "eigvec_identity", "eigvec_real", "eigvec_complex"]
    for herm in (True, False):
        for sizes in ([1, 2], [2, 1]) + (([1, 1, 1], [2, 2], [1, 1, 2]) if tier == "thorough" else ()):
            N = sum(sizes)
            spec = RAT_SPECTRA[N]
            for fmt in formats_1p + (["eigvec_biorthogonal"] if not herm else []):
                cfgs.append(dict(hermitian=herm, sizes=list(sizes), spectrum=spec, terms=[[1]], max_order=3 if N <= 3 else 2, format=fmt))
            # two parameters incl. a mixed term (not expressible as list)
            for fmt in ["dict_monomial", "sympy_matrix", "blocks", "blockseries", "eigvec_real"]:
                cfgs.append(dict(hermitian=herm, sizes=list(sizes), spectrum=RAT_SPECTRA_ALT.get(N, spec), terms=[[1, 0], [0, 1], [1, 1]], max_order=2 if N > 2 else 3, format=fmt))
            cfgs.append(dict(hermitian=herm, sizes=list(sizes), spectrum=spec, terms=[[1, 0], [0, 1]], max_order=2, format="list"))
            # three and four first-order perturbations (index bookkeeping of the list / monomial / matrix formats)
            for fmt in ("list", "dict_monomial", "sympy_matrix"):
                cfgs.append(dict(hermitian=herm, sizes=list(sizes), spectrum=spec, terms=[[1, 0, 0], [0, 1, 0], [0, 0, 1]], max_order=2, format=fmt))
            if N <= 3:
                cfgs.append(dict(hermitian=herm, sizes=[1, 1], spectrum=RAT_SPECTRA[2], terms=[[1, 0, 0, 0], [0, 1, 0, 0], [0, 0, 1, 0], [0, 0, 0, 1]], max_order=2, format="list"))
        # symbolic spectrum through the formats that keep H_0 diagonal
        for fmt in ["list", "dict_monomial", "sympy_matrix", "blocks", "blockseries", "eigvec_identity"]:
            cfgs.append(dict(hermitian=herm, sizes=[1, 2], spectrum="sym", terms=[[1]], max_order=2, format=fmt, complex_spectrum=False))
        # analytic dependence, Taylor-expanded by the library
        for kind in ("geom", "exp", "square") + (("sin",) if tier == "thorough" else ()):
            cfgs.append(dict(hermitian=herm, sizes=[1, 1], spectrum=RAT_SPECTRA[2], terms=[[1]], max_order=3, format="analytic_" + kind))
            cfgs.append(dict(hermitian=herm, sizes=[1, 2], spectrum=RAT_SPECTRA[3], terms=[[1]], max_order=2 if tier == "quick" else 3, format="analytic_" + kind))
        # masks / full diagonalisation across formats
        for fmt in ["list", "sympy_matrix", "blockseries", "eigvec_real"]:
            cfgs.append(dict(hermitian=herm, sizes=[2, 1], spectrum=RAT_SPECTRA[3], terms=[[1]], max_order=3, format=fmt, fd=[0]))
            cfgs.append(dict(hermitian=herm, sizes=[3], spectrum=RAT_SPECTRA[3], terms=[[1]], max_order=2, format=fmt, fd={"0": [[0, 1, 0], [1, 0, 0], [0, 0, 0]]}))
    jobs = [("vf.props.formats", "c14", c) for c in cfgs]
    for herm in (True, False):
        jobs.append(("vf.props.formats", "c14_sparse_vectors", dict(sparse_vectors=True, hermitian=herm)))
        for N, nbl in ((2, 2), (3, 2), (3, 3)) + (((4, 2),) if tier == "thorough" else ()):
            jobs.append(("vf.props.formats", "c14_sparse_dense", dict(sparse_dense=True, N=N, nblocks=nbl, hermitian=herm, max_order=3)))
        # perturbation of size 2^-30 (well above atol = 1e-12, far below 1): the documented zero tolerance, not numpy's default
        jobs.append(("vf.props.formats", "c14_sparse_dense", dict(sparse_dense=True, N=3, nblocks=2, hermitian=herm, max_order=2, scale=2.0 ** -30)))
        # pre-blocked nested lists with dense / sparse-array / legacy sparse-matrix blocks (they reach the algorithm unprojected)
        jobs.append(("vf.props.formats", "c14_sparse_dense", dict(sparse_dense=True, N=3, nblocks=2, hermitian=herm, max_order=3, blocked=True)))
        if tier == "thorough":
            jobs.append(("vf.props.formats", "c14_sparse_dense", dict(sparse_dense=True, N=4, nblocks=2, hermitian=herm, max_order=2, blocked=True)))
    for kind in ("real", "complex", "biorthogonal"):
        for sizes in ([1, 2], [2, 2], [1, 1, 1]):
            jobs.append(("vf.props.formats", "c14_operator", dict(operator=True, sizes=list(sizes), basis=kind, hermitian=False)))
            if kind != "biorthogonal":
                jobs.append(("vf.props.formats", "c14_operator", dict(operator=True, sizes=list(sizes), basis=kind, hermitian=True)))
    return jobs
