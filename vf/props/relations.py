"""C12(a), C13, C15: relational (2-safety) checks - two or three real runs over shared symbolic inputs.

Every relation is described once, generically over numpy arrays, and evaluated twice:
  * symbolically (object arrays of SymC, the solver decides lhs != rhs for all values),
  * numerically at a solver model (plain complex numpy through the public API) to confirm a counterexample.
"""
from __future__ import annotations

import itertools

from fractions import Fraction

import numpy as np

from .. import bd, symc
from ..engine import Rec
from ..symc import SymC

TOL = 1e-7
NAMES = ["Ht", "U", "Uinv"]


class Rel:
    """One relational obligation set.

    problems : list of dict(sizes, E, classes, terms (dict order->matrix), fd, max_order)
    scalars  : dict name -> SymC (symbolic scale factors / rotation parameters)
    relation : f(outs, sc, N) -> list of (label, lhs, rhs) ; outs[p][w][order] dense matrix or None (absent)
    """

    def __init__(self, kind, problems, relation, scalars=None):
        self.kind, self.problems, self.relation, self.scalars = kind, problems, relation, scalars or {}


def _get(out, order, N):
    v = out.get(tuple(order))
    return v


def _run_symbolic(cfg, rel):
    outs, probs = [], []
    for p in rel.problems:
        c = dict(cfg, sizes=p["sizes"], fd=p.get("fd"), max_order=p["max_order"])
        P = bd.Problem(c, E=p["E"], classes=p["classes"], terms_data=p["terms"])
        series = P.run()
        outs.append([{o: P.full(S, o) for o in P.orders} for S in series])
        probs.append(P)
    return outs, probs


def _run_numeric(cfg, rel, probs, model):
    outs = []
    for p, P in zip(rel.problems, probs):
        E, terms = P.concretize(model)
        if not terms:
            terms = {tuple([0] * (P.nparams - 1) + [1]): np.zeros((P.N, P.N), dtype=complex)}
        r = bd.numeric_run(p["sizes"], E, terms, hermitian=P.hermitian, fd=p.get("fd"), max_order=p["max_order"], callback=(P.carrier == "B"))
        outs.append([r[0], r[1], r[2]])
    sc = {k: complex(*map(float, bd.evaluate(v, model))) for k, v in rel.scalars.items()}
    return outs, sc


def check_relation(rec, cfg, rel, sigbase):
    try:
        outs, probs = _run_symbolic(cfg, rel)
    except symc.SymbolicDivisionByZero:
        raise
    except (ValueError, TypeError, NotImplementedError, IndexError, AttributeError) as e:
        # the related problems are all well posed (they are transformed copies of each other): an exception of the library is a violation
        from .herm import library_exception_info

        is_lib, where = library_exception_info(e)
        if not is_lib:
            raise
        rec.direct_violation(f"{rel.kind}: library raised on a well-posed related problem", f"{sigbase}:{rel.kind}:raised-{type(e).__name__}",
                             {"exception": f"{type(e).__name__}: {e}"[:300], "where": where, "relation": rel.kind})
        return None, None
    N = probs[0].N
    items = rel.relation(outs, rel.scalars, N)
    bad = set()
    first_nontrivial = None
    for label, lhs, rhs in items:
        which = label.split()[0]
        if which in bad:
            continue
        if lhs is None and rhs is None:
            continue

        def replay(model, label=label):
            nouts, sc = _run_numeric(cfg, rel, probs, model)
            for lab, a, b in rel.relation(nouts, sc, N):
                if lab != label:
                    continue
                a = np.zeros((1, 1)) if a is None else np.asarray(a, dtype=complex)
                b = np.zeros_like(a) if b is None else np.asarray(b, dtype=complex)
                err = float(np.max(np.abs(a - b)))
                scale = max(1.0, float(np.max(np.abs(a))), float(np.max(np.abs(b))))
                return err > TOL * scale, {"relation": rel.kind, "label": label, "max_abs_error": err, "scale": scale}
            return False, {"error": "label not found in numeric relation"}

        A = lhs if lhs is not None else symc.zeros(*np.shape(rhs))
        v = rec.oblige(f"{rel.kind}: {label}", A, rhs, sig=f"{sigbase}:{rel.kind}:{which}", replay=replay)
        if v == "sat":
            bad.add(which)
        if v != "structural":
            rec.nontrivial = True
            if first_nontrivial is None and rhs is not None:
                first_nontrivial = (A, rhs)
    return outs, probs


# ------------------------------------------------------------------------------------------------
# building blocks


def _base(cfg):
    """Symbolic base problem data from a config (sizes, spectrum, hermitian...)."""
    P = bd.Problem(dict(cfg, terms=cfg.get("terms", [[1]])))
    return P


def _mat(name, N, hermitian, real=False):
    M = symc.hermitian(name, N) if hermitian else symc.general(name, N)
    if real:
        M = np.vectorize(lambda x: SymC(x.re), otypes=[object])(M)
    return M


def _sigbase(cfg):
    spec = cfg.get("spectrum")
    spec = spec if isinstance(spec, str) else "num"
    return f"carrier={cfg.get('carrier')}:herm={cfg.get('hermitian', True)}:sizes={'|'.join(map(str, cfg['sizes']))}:spec={spec}"


def _mul(c, M):
    return None if M is None else M * c


# ------------------------------------------------------------------------------------------------
# C13


def c13(cfg):
    rec = Rec("C13", cfg)
    herm = cfg.get("hermitian", True)
    kind = cfg["relation"]
    B0 = _base(dict(cfg, terms=[[1]]))
    N, sizes, E, classes = B0.N, B0.sizes, B0.E, B0.classes
    fd = cfg.get("fd")
    mo = cfg["max_order"]
    A = _mat("a_", N, herm)
    Bm = _mat("b_", N, herm)
    Cm = _mat("c_", N, herm)
    base = dict(sizes=sizes, E=E, classes=classes, fd=fd, max_order=mo)

    if kind == "scale1":
        c = SymC(symc.real("c1"))
        terms1 = {(1,): A, (2,): Bm}
        terms2 = {(1,): A * c, (2,): Bm * (c * c)}
        rel = Rel(kind, [dict(base, terms=terms1), dict(base, terms=terms2)],
                  lambda outs, sc, N: [(f"{NAMES[w]} order={o}", outs[1][w][o], _mul(sc["c1"] ** o[0], outs[0][w][o])) for o in outs[0][0] for w in range(3)],
                  {"c1": c})
    elif kind == "scale2":
        c1, c2 = SymC(symc.real("c1")), SymC(symc.real("c2"))
        terms1 = {(1, 0): A, (0, 1): Bm, (1, 1): Cm}
        terms2 = {(1, 0): A * c1, (0, 1): Bm * c2, (1, 1): Cm * (c1 * c2)}
        rel = Rel(kind, [dict(base, terms=terms1), dict(base, terms=terms2)],
                  lambda outs, sc, N: [(f"{NAMES[w]} order={o}", outs[1][w][o], _mul(sc["c1"] ** o[0] * sc["c2"] ** o[1], outs[0][w][o])) for o in outs[0][0] for w in range(3)],
                  {"c1": c1, "c2": c2})
    elif kind == "merge":
        terms2 = {(1, 0): A, (0, 1): Bm, (1, 1): Cm}
        terms1 = {(1,): A + Bm, (2,): Cm}

        def relation(outs, sc, N):
            items = []
            for o in outs[0][0]:
                n = o[0]
                for w in range(3):
                    acc = None
                    for n1 in range(n + 1):
                        t = outs[1][w].get((n1, n - n1))
                        if t is not None:
                            acc = t if acc is None else acc + t
                    items.append((f"{NAMES[w]} order={o}", outs[0][w][o], acc))
            return items

        rel = Rel(kind, [dict(base, terms=terms1), dict(base, terms=terms2)], relation)
    elif kind in ("merge3_01", "merge3_02", "merge3_12", "merge3_all"):
        # groupings of three parameters: the named pair (or all three) share one parameter
        terms3 = {(1, 0, 0): A, (0, 1, 0): Bm, (0, 0, 1): Cm}
        if kind == "merge3_all":
            groups = [0, 0, 0]
        else:
            pair = (int(kind[-2]), int(kind[-1]))
            groups = [0, 0, 0]
            other = ({0, 1, 2} - set(pair)).pop()
            groups[pair[0]] = groups[pair[1]] = 0
            groups[other] = 1
        ng = max(groups) + 1
        mats = [A, Bm, Cm]
        terms1 = {}
        for k in range(3):
            key = tuple(1 if g == groups[k] else 0 for g in range(ng))
            terms1[key] = mats[k] if key not in terms1 else terms1[key] + mats[k]

        def relation(outs, sc, N, groups=groups, ng=ng):
            items = []
            for o in outs[0][0]:
                for w in range(3):
                    acc = None
                    for o3, t in outs[1][w].items():
                        if all(sum(o3[k] for k in range(3) if groups[k] == g) == o[g] for g in range(ng)):
                            acc = t if acc is None else acc + t
                    items.append((f"{NAMES[w]} order={o}", outs[0][w][o], acc))
            return items

        rel = Rel(kind, [dict(base, terms=terms1), dict(base, terms=terms3)], relation)
    elif kind == "scale3":
        c1, c2, c3 = SymC(symc.real("c1")), SymC(symc.real("c2")), SymC(symc.real("c3"))
        terms1 = {(1, 0, 0): A, (0, 1, 0): Bm, (0, 0, 1): Cm}
        terms2 = {(1, 0, 0): A * c1, (0, 1, 0): Bm * c2, (0, 0, 1): Cm * c3}
        rel = Rel(kind, [dict(base, terms=terms1), dict(base, terms=terms2)],
                  lambda outs, sc, N: [(f"{NAMES[w]} order={o}", outs[1][w][o], _mul(sc["c1"] ** o[0] * sc["c2"] ** o[1] * sc["c3"] ** o[2], outs[0][w][o])) for o in outs[0][0] for w in range(3)],
                  {"c1": c1, "c2": c2, "c3": c3})
    elif kind == "permute":
        terms1 = {(1, 0): A, (0, 1): Bm, (2, 0): Cm}
        terms2 = {(0, 1): A, (1, 0): Bm, (0, 2): Cm}
        rel = Rel(kind, [dict(base, terms=terms1), dict(base, terms=terms2)],
                  lambda outs, sc, N: [(f"{NAMES[w]} order={o}", outs[1][w][o], outs[0][w][(o[1], o[0])]) for o in outs[0][0] for w in range(3)])
    elif kind == "permute3":
        terms1 = {(1, 0, 0): A, (0, 1, 0): Bm, (0, 0, 1): Cm}
        terms2 = {(0, 0, 1): A, (1, 0, 0): Bm, (0, 1, 0): Cm}
        # parameter k of problem 1 is parameter pi(k) of problem 2: 0->2, 1->0, 2->1
        rel = Rel(kind, [dict(base, terms=terms1), dict(base, terms=terms2)],
                  lambda outs, sc, N: [(f"{NAMES[w]} order={o}", outs[1][w][(o[1], o[2], o[0])], outs[0][w][o]) for o in outs[0][0] for w in range(3)])
    elif kind == "vanishing":
        terms1 = {(1,): A, (2,): Bm}
        terms2 = {(1, 0): A, (2, 0): Bm}
        zeroN = symc.zeros(N, N)

        def relation(outs, sc, N):
            items = []
            for o in outs[1][0]:
                for w in range(3):
                    if o[1] == 0:
                        items.append((f"{NAMES[w]} order={o}", outs[1][w][o], outs[0][w][(o[0],)]))
                    else:
                        items.append((f"{NAMES[w]} order={o}", outs[1][w][o], None))
            return items

        rel = Rel(kind, [dict(base, terms=terms1), dict(base, terms=terms2)], relation)
    elif kind in ("power2", "power3"):
        p = int(kind[-1])
        terms1 = {(1,): A, (2,): Bm}
        terms2 = {(p,): A, (2 * p,): Bm}
        base2 = dict(base, max_order=mo * p)

        def relation(outs, sc, N):
            items = []
            for o in outs[1][0]:
                for w in range(3):
                    if o[0] % p == 0:
                        items.append((f"{NAMES[w]} order={o}", outs[1][w][o], outs[0][w][(o[0] // p,)]))
                    else:
                        items.append((f"{NAMES[w]} order={o}", outs[1][w][o], None))
            return items

        rel = Rel(kind, [dict(base, terms=terms1), dict(base2, terms=terms2)], relation)
    else:
        raise KeyError(kind)
    check_relation(rec, cfg, rel, _sigbase(cfg))
    from .. import solver

    rec.guard("assumptions_sat", solver.assumptions_sat() == "sat")
    rec.sample = {"config": cfg, "n_symbolic_reals": len(symc.CTX.vars)}
    return rec


class _Swapped:
    """A two-parameter series read with its two order indices exchanged."""

    def __init__(self, S):
        self.S = S

    def __getitem__(self, key):
        i, j, a, b = key
        return self.S[(i, j, b, a)]


def c13_sympy(cfg):
    """Merge / permute / scale relations for a sympy-matrix Hamiltonian with symbols (library Taylor-expands it)."""
    import sympy
    from pymablock import block_diagonalize

    from .. import sympy_bridge as sb

    rec = Rec("C13", cfg)
    herm = cfg.get("hermitian", True)
    B0 = _base(dict(cfg, terms=[[1]], carrier="C"))
    N, E = B0.N, B0.E
    A, Bm, Cm = (_mat(nm, N, herm) for nm in ("a_", "b_", "c_"))
    x, y = sympy.Symbol("l0", real=True), sympy.Symbol("l1", real=True)
    H0 = sympy.diag(*[sb.to_sympy(e) for e in E])
    As, Bs, Cs = sb.matrix_to_sympy(A), sb.matrix_to_sympy(Bm), sb.matrix_to_sympy(Cm)
    mo = cfg["max_order"]
    idx = list(B0.blockof)
    tr = sb.Translator()
    kind = cfg["relation"]
    H2 = H0 + x * As + y * Bs + x * y * Cs + x**2 * y * As
    out2 = block_diagonalize(H2, subspace_indices=idx, symbols=[x, y], hermitian=herm)
    if kind == "merge":
        H1 = H0 + x * (As + Bs) + x**2 * Cs + x**3 * As
        out1 = block_diagonalize(H1, subspace_indices=idx, symbols=[x], hermitian=herm)
    elif kind == "permute":
        H1 = H2.subs({x: y, y: x}, simultaneous=True)
        out1 = block_diagonalize(H1, subspace_indices=idx, symbols=[x, y], hermitian=herm)
    elif kind == "symbol_order":
        # the same Hamiltonian with the perturbative symbols listed in the other (non-alphabetical) order: only the order indices swap
        out1 = block_diagonalize(H2, subspace_indices=idx, symbols=[y, x], hermitian=herm)
    elif kind in ("symbol_order_dict", "symbol_order_dict_int_key"):
        # the documented dictionary format with monomial keys, {1: h_0, x: h_x, y: h_y, ...}: `symbols` fixes the order of the indices
        one_key = 1 if kind.endswith("int_key") else sympy.S.One
        Hd = {one_key: H0, x: As, y: Bs, x * y: Cs, x**2 * y: As}
        try:
            out2 = block_diagonalize(dict(Hd), subspace_indices=idx, symbols=[x, y], hermitian=herm)
            out1 = block_diagonalize(dict(Hd), subspace_indices=idx, symbols=[y, x], hermitian=herm)
        except Exception as e:  # noqa: BLE001
            from .herm import library_exception_info

            is_lib, where = library_exception_info(e, pure_inputs=True)
            if not is_lib:
                raise
            rec.direct_violation("library raised on the documented monomial-key dictionary", _sigbase(cfg) + f":sympy-matrix-format:{kind}:raised-{type(e).__name__}",
                                 {"exception": f"{type(e).__name__}: {e}"[:300], "where": where}, reproduced=True)
            return rec
    elif kind == "only_unperturbed_int_key":
        # {1: h_0} (the documented integer key, no perturbation at all): every higher order is absent, nothing raises
        from pymablock.series import zero as _z

        try:
            out = block_diagonalize({1: H0}, subspace_indices=idx, symbols=[x], hermitian=herm)
            nb_ = len(set(idx))
            vals = [out[0][(nb_ - 1, nb_ - 1, 0)], out[0][(0, 0, 1)], out[1][(0, nb_ - 1, 1)]]  # the last block has non-zero levels
        except Exception as e:  # noqa: BLE001
            from .herm import library_exception_info

            is_lib, where = library_exception_info(e, pure_inputs=True)
            if not is_lib:
                raise
            rec.direct_violation("library raised on {1: h_0}", _sigbase(cfg) + f":sympy-matrix-format:{kind}:raised-{type(e).__name__}",
                                 {"exception": f"{type(e).__name__}: {e}"[:300], "where": where}, reproduced=True)
            return rec
        if vals[1] is _z and vals[2] is _z and vals[0] is not _z:
            rec.discharged("{1: h_0}: order 0 present, higher orders absent", "confirmed")
        else:
            rec.direct_violation("{1: h_0}: unexpected orders", _sigbase(cfg) + f":sympy-matrix-format:{kind}:values", {"values": [str(v)[:80] for v in vals]}, reproduced=True)
        rec.nontrivial = True
        return rec
    elif kind == "names_without_symbols":
        # no `symbols` argument: the perturbative parameters are taken from the Hamiltonian; the result must say which index is which
        # (matrix entries must be numbers here: every free symbol counts as a perturbative parameter)
        pt = {sym: sympy.Rational(3 + 2 * k, 2 + (k % 5)) * (-1) ** k for k, sym in enumerate(sorted((As.free_symbols | Bs.free_symbols | Cs.free_symbols), key=str))}
        H2 = H2.subs(pt)
        out2 = block_diagonalize(H2, subspace_indices=idx, symbols=[x, y], hermitian=herm)
        out1 = block_diagonalize(H2, subspace_indices=idx, hermitian=herm)
        # explicitly given symbols label the indices, also for a ready-made (unsplit) series of the same terms
        from pymablock.series import BlockSeries

        z0 = {x: 0, y: 0}
        ready = BlockSeries(data={(0, 0): H2.subs(z0), (1, 0): H2.diff(x).subs(z0), (0, 1): H2.diff(y).subs(z0)}, shape=(), n_infinite=2)
        for label, outs in (("sympy matrix", out2), ("unsplit BlockSeries", block_diagonalize(ready, subspace_indices=idx, symbols=[x, y], hermitian=herm))):
            got = [str(n) for S in outs for n in S.dimension_names]
            if got != [str(x), str(y)] * 3:
                rec.direct_violation(f"outputs are not labelled with the given symbols ({label})", _sigbase(cfg) + ":sympy-matrix-format:names_without_symbols:given-symbols",
                                     {"input": label, "dimension_names": got, "expected": [str(x), str(y)]}, reproduced=True)
                return rec
        names = list(out1[0].dimension_names)
        if sorted(map(str, names)) != sorted(map(str, [x, y])):
            rec.direct_violation("outputs do not name their order indices", _sigbase(cfg) + ":sympy-matrix-format:names_without_symbols:names",
                                 {"dimension_names": [str(n) for n in names], "expected_some_order_of": [str(x), str(y)]}, reproduced=True)
            return rec
        if [str(n) for n in names] == [str(x), str(y)]:
            out1 = [_Swapped(S) for S in out1]  # compare through the generic swapped-index relation below
    else:
        raise KeyError(kind)
    from pymablock.series import one, zero

    P = B0
    P._tr, P._sym_pairs = tr, []
    one_pt = {"l0": 1, "l1": 1}

    def full(S, o):
        M = P.full(S, o)
        # the sympy-matrix format returns every element multiplied by its monomial: substitute l_k = 1
        import z3

        subs = [(symc.real("l0"), symc.R1), (symc.real("l1"), symc.R1)]
        return np.vectorize(lambda v: SymC(z3.substitute(v.re, *subs), z3.substitute(v.im, *subs), v.den), otypes=[object])(M)

    sigb = _sigbase(cfg) + ":sympy-matrix-format:" + kind
    bad = set()
    for n in range(mo + 1):
        for w in range(3):
            if w in bad:
                continue
            if kind == "merge":
                lhs = full(out1[w], (n,))
                rhs = None
                for n1 in range(n + 1):
                    t = full(out2[w], (n1, n - n1))
                    rhs = t if rhs is None else rhs + t
                items = [((n,), lhs, rhs)]
            else:
                items = [((n1, n - n1), full(out1[w], (n1, n - n1)), full(out2[w], (n - n1, n1))) for n1 in range(n + 1)]
            for o, lhs, rhs in items:
                v = rec.oblige(f"{NAMES[w]} order={o}", lhs, rhs, sig=sigb + ":" + NAMES[w],
                               replay=lambda model: (True, {"note": "exact symbolic identity between two public-API runs on the same sympy input"}))
                if v == "sat":
                    bad.add(w)
                if v != "structural":
                    rec.nontrivial = True
    from .. import solver

    rec.guard("assumptions_sat", solver.assumptions_sat() == "sat")
    rec.sample = {"config": cfg, "n_symbolic_reals": len(symc.CTX.vars)}
    return rec


# ------------------------------------------------------------------------------------------------
# C15


def _perm_matrix(perm):
    n = len(perm)
    P = np.zeros((n, n), dtype=int)
    for new, old in enumerate(perm):
        P[new, old] = 1
    return P


def c15(cfg):
    rec = Rec("C15", cfg)
    herm = cfg.get("hermitian", True)
    kind = cfg["relation"]
    B0 = _base(dict(cfg, terms=[[1]]))
    N, sizes, E, classes = B0.N, B0.sizes, B0.E, B0.classes
    fd = cfg.get("fd")
    mo = cfg["max_order"]
    A = _mat("a_", N, herm)
    Bm = _mat("b_", N, herm)
    terms1 = {(1,): A, (2,): Bm} if cfg.get("second", True) else {(1,): A}
    base = dict(sizes=sizes, E=E, classes=classes, fd=fd, max_order=mo, terms=terms1)
    scal = {}

    def conjT(M):
        return None if M is None else M.conj().T

    if kind in ("relabel", "permute_basis"):
        if kind == "relabel":
            bperm = cfg["block_perm"]  # new block b' is old block bperm[b']
            off = np.cumsum([0] + sizes)
            perm = [i for b in bperm for i in range(off[b], off[b + 1])]
            sizes2 = [sizes[b] for b in bperm]
            fd2 = fd
            if isinstance(fd, dict):
                fd2 = {str(bperm.index(int(b))): m for b, m in fd.items()}
            elif fd:
                fd2 = [bperm.index(b) for b in fd]
        else:
            perm = cfg["basis_perm"]  # within blocks
            sizes2 = sizes
            fd2 = fd
            if isinstance(fd, dict):
                off = np.cumsum([0] + sizes)
                fd2 = {}
                for b, m in fd.items():
                    b = int(b)
                    loc = [perm[i] - off[b] for i in range(off[b], off[b + 1])]
                    m = np.array(m)
                    fd2[str(b)] = m[np.ix_(loc, loc)].tolist()
        Pm = _perm_matrix(perm)
        E2 = [E[p] for p in perm]
        classes2 = [classes[p] for p in perm]
        terms2 = {o: Pm @ M @ Pm.T for o, M in terms1.items()}
        p2 = dict(sizes=sizes2, E=E2, classes=classes2, fd=fd2, max_order=mo, terms=terms2)

        def relation(outs, sc, N):
            return [(f"{NAMES[w]} order={o}", outs[1][w][o], Pm @ outs[0][w][o] @ Pm.T) for o in outs[0][0] for w in range(3)]

        rel = Rel(kind, [base, p2], relation)
    elif kind == "conjugate":
        terms2 = {o: M.conj() for o, M in terms1.items()}
        E2 = [e.conjugate() for e in E]
        p2 = dict(base, E=E2, terms=terms2)
        rel = Rel(kind, [base, p2], lambda outs, sc, N: [(f"{NAMES[w]} order={o}", outs[1][w][o], outs[0][w][o].conj()) for o in outs[0][0] for w in range(3)])
    elif kind == "shift":
        mu = SymC(symc.real("mu"))
        E2 = [e + mu for e in E]
        p2 = dict(base, E=E2)
        scal = {"mu": mu}

        def relation(outs, sc, N):
            items = []
            for o in outs[0][0]:
                for w in range(3):
                    ref = outs[0][w][o]
                    if w == 0 and sum(o) == 0:
                        ref = ref + np.eye(N, dtype=int) * sc["mu"]
                    items.append((f"{NAMES[w]} order={o}", outs[1][w][o], ref))
            return items

        rel = Rel(kind, [base, p2], relation, scal)
    elif kind == "shift_numeric":
        # concrete shift (carrier A: the real diagonal solver); chosen such that a block becomes exactly zero
        sh = SymC(symc._rv(bd.parse_number(cfg["shift"])[0]))
        E2 = [e + sh for e in E]
        p2 = dict(base, E=E2, classes=None)

        def relation(outs, sc, N, shv=float(bd.parse_number(cfg["shift"])[0])):
            items = []
            for o in outs[0][0]:
                for w in range(3):
                    ref = outs[0][w][o]
                    if w == 0 and sum(o) == 0:
                        ref = ref + np.eye(N, dtype=int) * (sh if isinstance(ref[0, 0], SymC) else shv)
                    items.append((f"{NAMES[w]} order={o}", outs[1][w][o], ref))
            return items

        rel = Rel(kind, [base, p2], relation)
    elif kind == "scale_numeric":
        # concrete power-of-two scale on carrier A (the library's own diagonal solver and its degeneracy tests): exact in floats
        from fractions import Fraction as _F

        sv = _F(2) ** int(cfg["log2_scale"])
        s = SymC(symc._rv(sv))
        E2 = [e * s for e in E]
        terms2 = {o: M * s for o, M in terms1.items()}
        p2 = dict(base, E=E2, terms=terms2)
        rel = Rel(kind, [base, p2], lambda outs, sc, N: [
            (f"{NAMES[w]} order={o}", outs[1][w][o], outs[0][w][o] * s if w == 0 else outs[0][w][o]) for o in outs[0][0] for w in range(3)])
    elif kind == "scale":
        s = SymC(symc.real("s"))
        symc.assume(s.re > 0)
        E2 = [e * s for e in E]
        terms2 = {o: M * s for o, M in terms1.items()}
        p2 = dict(base, E=E2, terms=terms2)
        scal = {"s": s}
        rel = Rel(kind, [base, p2], lambda outs, sc, N: [
            (f"{NAMES[w]} order={o}", outs[1][w][o], outs[0][w][o] * sc["s"] if w == 0 else outs[0][w][o]) for o in outs[0][0] for w in range(3)], scal)
    elif kind == "rotate":
        # rotation inside a 2-fold degenerate level (i, j): R = Cayley(t) * phase-free real rotation, plus complex phase via second Cayley
        i, j = cfg["pair"]
        assert classes[i] == classes[j]
        t = SymC(symc.real("t"))
        den = (t * t + 1)
        c = (SymC(symc.R1) - t * t) / den
        sn = (t * 2) / den
        R = symc.eye(N)
        R[i, i], R[i, j], R[j, i], R[j, j] = c, -sn, sn, c
        if not cfg.get("real_rotation", False):
            u = SymC(symc.real("u"))
            du = (u * u + 1)
            ph = SymC((SymC(symc.R1) - u * u).re, (u * 2).re) / du  # unit complex number (1-u^2 + 2iu)/(1+u^2)
            R[i, j] = R[i, j] * ph
            R[j, j] = R[j, j] * ph
            scal["u"] = u
        scal["t"] = t
        Rd = symc.dagger(R)
        terms2 = {o: symc.mm(symc.mm(Rd, M), R) for o, M in terms1.items()}
        p2 = dict(base, terms=terms2)

        def relation(outs, sc, N, i=i, j=j):
            # rebuild R from the scalars (works for SymC and complex)
            one_ = sc["t"] * 0 + 1
            tt = sc["t"]
            c_ = (one_ - tt * tt) / (tt * tt + 1)
            s_ = (tt * 2) / (tt * tt + 1)
            Rm = np.eye(N, dtype=int).astype(object)
            Rm[i, i], Rm[i, j], Rm[j, i], Rm[j, j] = c_, -s_, s_, c_
            if "u" in sc:
                uu = sc["u"]
                ph_ = ((one_ - uu * uu) + (uu * 2) * 1j) / (uu * uu + 1)
                Rm[i, j] = Rm[i, j] * ph_
                Rm[j, j] = Rm[j, j] * ph_
            if not isinstance(tt, SymC):
                Rm = Rm.astype(complex)
                Rdm = Rm.conj().T
            else:
                Rdm = symc.dagger(Rm)
            return [(f"{NAMES[w]} order={o}", outs[1][w][o], Rdm @ outs[0][w][o] @ Rm) for o in outs[0][0] for w in range(3)]

        rel = Rel(kind, [base, p2], relation, scal)
    elif kind == "directsum":
        # second, decoupled system appended block-wise: block b = (block b of system 1) + (block b of system 2)
        sizes_b = cfg["sizes_b"]
        Nb = sum(sizes_b)
        nb = len(sizes)
        assert len(sizes_b) == nb
        Pb = bd.Problem(dict(cfg, sizes=sizes_b, spectrum=cfg["spectrum_b"], terms=[[1]]))
        Eb = [SymC(symc.real(f"F{k}")) if cfg["spectrum_b"] == "sym" else e for k, e in enumerate(Pb.E)]
        A2 = _mat("p_", Nb, herm)
        B2 = _mat("q_", Nb, herm)
        termsb = {(1,): A2, (2,): B2} if cfg.get("second", True) else {(1,): A2}
        offa = np.cumsum([0] + sizes)
        offb = np.cumsum([0] + sizes_b)
        order_idx = []  # combined basis: for each block, states of a then states of b
        for b in range(nb):
            order_idx += [("a", i) for i in range(offa[b], offa[b + 1])] + [("b", i) for i in range(offb[b], offb[b + 1])]
        Nt = N + Nb
        sizes_c = [sizes[b] + sizes_b[b] for b in range(nb)]

        def embed(Ma, Mb):
            out = symc.zeros(Nt, Nt) if (isinstance(Ma, np.ndarray) and Ma.dtype == object) else np.zeros((Nt, Nt), dtype=complex)
            for r, (sr, ir) in enumerate(order_idx):
                for c_, (sc_, ic) in enumerate(order_idx):
                    if sr == sc_ == "a":
                        out[r, c_] = Ma[ir, ic]
                    elif sr == sc_ == "b":
                        out[r, c_] = Mb[ir, ic]
            return out

        Ec = [E[i] if s == "a" else Eb[i] for s, i in order_idx]
        cls_b = [1000 + k for k in Pb.classes]
        classes_c = [classes[i] if s == "a" else cls_b[i] for s, i in order_idx]
        if all(symc.lift(e).const_value() is not None for e in Ec):
            classes_c = None  # numeric spectra: level classes by value (the two systems may share energies inside a block)
        terms_c = {o: embed(terms1[o], termsb[o]) for o in terms1}
        fdc = None
        if fd:
            assert not isinstance(fd, dict)
            fdc = list(fd)
        pa = dict(base)
        pb = dict(sizes=sizes_b, E=Eb, classes=cls_b, fd=fd, max_order=mo, terms=termsb)
        pc = dict(sizes=sizes_c, E=Ec, classes=classes_c, fd=fdc, max_order=mo, terms=terms_c)

        def relation(outs, sc, N):
            return [(f"{NAMES[w]} order={o}", outs[2][w][o], embed(outs[0][w][o], outs[1][w][o])) for o in outs[0][0] for w in range(3)]

        rel = Rel(kind, [pa, pb, pc], relation)
    else:
        raise KeyError(kind)
    check_relation(rec, cfg, rel, _sigbase(cfg))
    from .. import solver

    rec.guard("assumptions_sat", solver.assumptions_sat() == "sat")
    rec.sample = {"config": cfg, "n_symbolic_reals": len(symc.CTX.vars)}
    return rec


# ------------------------------------------------------------------------------------------------
# C12 (a): non-interference - outputs at order n do not depend on Hamiltonian terms of order not <= n


def c12a(cfg):
    rec = Rec("C12", cfg)
    herm = cfg.get("hermitian", True)
    B0 = _base(dict(cfg, terms=[[1]]))
    N, sizes, E, classes = B0.N, B0.sizes, B0.E, B0.classes
    npar = cfg["nparams"]
    mo = cfg["max_order"]
    tmax = cfg["term_order"]  # terms exist at all multi-orders with total <= tmax
    orders = [o for o in bd.orders_upto(npar, tmax) if sum(o) > 0]
    X = {o: _mat("x" + "".join(map(str, o)) + "_", N, herm) for o in orders}
    Y = {o: _mat("y" + "".join(map(str, o)) + "_", N, herm) for o in orders}
    base = dict(sizes=sizes, E=E, classes=classes, fd=cfg.get("fd"), max_order=mo)
    sigb = _sigbase(cfg)
    req = [o for o in bd.orders_upto(npar, mo)]
    # one pair of problems per requested order n: terms m <= n componentwise shared (x), all others independent (y vs y')
    P1 = bd.Problem(dict(cfg, sizes=sizes, max_order=mo), E=E, classes=classes, terms_data=X)
    out1 = [{o: P1.full(S, o) for o in P1.orders} for S in P1.run()]
    for n in req:
        terms2 = {o: (X[o] if all(a <= b for a, b in zip(o, n)) else Y[o]) for o in orders}
        if all(terms2[o] is X[o] for o in orders):
            continue
        P2 = bd.Problem(dict(cfg, sizes=sizes, max_order=mo), E=E, classes=classes, terms_data=terms2)
        S2 = P2.run()
        for w in range(3):

            def replay(model, n=n, w=w, P2=P2):
                E1, t1 = P1.concretize(model)
                E2, t2 = P2.concretize(model)
                r1 = bd.numeric_run(sizes, E1, t1, hermitian=herm, fd=cfg.get("fd"), max_order=mo, callback=(P1.carrier == "B"))
                r2 = bd.numeric_run(sizes, E2, t2, hermitian=herm, fd=cfg.get("fd"), max_order=mo, callback=(P1.carrier == "B"))
                a, b = r1[w][n], r2[w][n]
                err = float(np.max(np.abs(a - b)))
                return err > TOL * max(1.0, float(np.max(np.abs(a)))), {"order": list(n), "series": NAMES[w], "max_abs_error": err}

            v = rec.oblige(f"noninterference {NAMES[w]} order={n}", P2.full(S2[w], n), out1[w][n], sig=f"{sigb}:noninterference:{NAMES[w]}", replay=replay)
            if v != "structural":
                rec.nontrivial = True
    # (b) call log of the user's Hamiltonian series (concrete, exhaustive over blocks x orders of the box):
    #     definition evaluates zeroth order only; a request at order n evaluates only orders m <= n, each at most once.
    zo = (0,) * npar
    for w in range(3):
        for n in req:
            for (bi, bj) in itertools.product(range(len(sizes)), repeat=2):
                Pl = bd.Problem(dict(cfg, sizes=sizes, max_order=mo), E=E, classes=classes, terms_data=X)
                series = Pl.run()
                defined = list(Pl.h_calls)
                bad_def = [c for c in defined if tuple(c[2:]) != zo]
                series[w][(bi, bj, *n)]
                calls = Pl.h_calls
                bad_cone = [c for c in calls if not all(a <= b for a, b in zip(c[2:], n))]
                dup = len(calls) - len(set(calls))
                bad_idx = [c for c in calls if not (0 <= c[0] < len(sizes) and 0 <= c[1] < len(sizes))]
                name = f"calllog {NAMES[w]}[{bi},{bj},{n}]"
                if bad_idx:
                    rec.direct_violation(name, f"{sigb}:calllog-unnormalised-index", {"request": [bi, bj, *n], "calls": bad_idx[:5],
                                         "note": "the user's eval was called with an un-normalised (negative) block index: the same element is evaluated under two names"})
                elif bad_def:
                    rec.direct_violation(name, f"{sigb}:calllog-definition", {"evaluated_at_definition": bad_def[:5]})
                elif bad_cone:
                    rec.direct_violation(name, f"{sigb}:calllog-cone", {"request": [bi, bj, *n], "outside_cone": bad_cone[:5]})
                elif dup:
                    rec.direct_violation(name, f"{sigb}:calllog-repeat", {"request": [bi, bj, *n], "repeated": dup})
                else:
                    rec.discharged(name + f" ({len(calls)} evaluations)", "confirmed")
    # whole request schedules on one computation: after every request the evaluations so far lie in the union of the cones of the
    # orders requested so far, and no Hamiltonian term is ever evaluated twice (also after intermediate results were deleted)
    import random as _random

    allreq = [(w, bi, bj, n) for w in range(3) for n in req for (bi, bj) in itertools.product(range(len(sizes)), repeat=2)]
    schedules = {"ascending": list(allreq), "descending": list(allreq)[::-1]}
    for k in range(cfg.get("schedules", 3)):
        sh = list(allreq)
        _random.Random(1000 + k).shuffle(sh)
        schedules[f"shuffled{k}"] = sh
    for sname, sched in schedules.items():
        Pl = bd.Problem(dict(cfg, sizes=sizes, max_order=mo), E=E, classes=classes, terms_data=X)
        series = Pl.run()
        requested = []
        problem = None
        for step, (w, bi, bj, n) in enumerate(sched):
            series[w][(bi, bj, *n)]
            requested.append(n)
            calls = Pl.h_calls
            bad_cone = [c for c in calls if not any(all(a <= b for a, b in zip(c[2:], m)) for m in requested)]
            dup = len(calls) - len(set(calls))
            if bad_cone or dup:
                problem = dict(schedule=sname, step=step, request=[w, bi, bj, *n], outside_cone=bad_cone[:5], repeated=dup,
                               prefix=[[a, b, c, *d] for a, b, c, d in sched[: step + 1]][-6:])
                break
        name = f"calllog schedule {sname} ({len(sched)} requests)"
        if problem:
            rec.direct_violation(name, f"{sigb}:calllog-schedule-{'cone' if problem['outside_cone'] else 'repeat'}", problem)
        else:
            rec.discharged(name + f" ({len(Pl.h_calls)} evaluations)", "confirmed")
    # list-valued order requests (numpy pairs several lists element-wise): only the cones of the paired orders may be evaluated
    if npar == 2 and mo >= 2:
        for w in range(3):
            for lists in (([2, 0], [0, 2]), ([1, 0], [0, 1]), ([0, 2], [1, 0]), ([2, 1], [0, 0])):
                pairs = [p for p in zip(*lists) if sum(p) <= mo]
                if len(pairs) != len(lists[0]):
                    continue
                Pl = bd.Problem(dict(cfg, sizes=sizes, max_order=mo), E=E, classes=classes, terms_data=X)
                series = Pl.run()
                series[w][(0, 0, list(lists[0]), list(lists[1]))]
                calls = Pl.h_calls
                bad_cone = [c for c in calls if not any(all(a <= b for a, b in zip(c[2:], n)) for n in pairs)]
                dup = len(calls) - len(set(calls))
                name = f"calllog {NAMES[w]}[0,0,{lists[0]},{lists[1]}]"
                if bad_cone:
                    rec.direct_violation(name, f"{sigb}:calllog-cone-list-request", {"request": [list(x) for x in lists], "outside_cone": bad_cone[:5]})
                elif dup:
                    rec.direct_violation(name, f"{sigb}:calllog-repeat", {"request": [list(x) for x in lists], "repeated": dup})
                else:
                    rec.discharged(name + f" ({len(calls)} evaluations)", "confirmed")
    from .. import solver

    rec.guard("assumptions_sat", solver.assumptions_sat() == "sat")
    # twin: an order that IS in the cone must show dependence (order n output depends on the order-n term)
    n = max(req, key=lambda o: (sum(o), o))
    terms3 = dict(X)
    terms3[n] = Y[n]
    P3 = bd.Problem(dict(cfg, sizes=sizes, max_order=mo), E=E, classes=classes, terms_data=terms3)
    S3 = P3.run()
    rec.guard_twin("twin_dependence_inside_cone", P3.full(S3[0], n), out1[0][n])
    rec.sample = {"config": cfg, "n_symbolic_reals": len(symc.CTX.vars)}
    return rec


def c12_lazy_formats(cfg):
    """Call log of a lazily defined *unblocked* Hamiltonian series (BlockSeries of shape (), full matrices) through the other
    public ways of designating subspaces: subspace_indices, complete eigenvectors, implicit mode (incomplete eigenvectors, real
    sparse LU), an H_0 with an exactly vanishing block.  Concrete by nature (the log is a set of indices, not a value):
    exhaustive over series x blocks x orders of the box, fresh computation per request."""
    import itertools as it

    from pymablock import block_diagonalize
    from pymablock.series import BlockSeries

    rec = Rec("C12", cfg)
    mode = cfg["mode"]
    if mode == "second_quantized":
        return _c12_lazy_second_quantized(rec, cfg)
    E = [float(Fraction(x)) for x in cfg["spectrum"]]
    N = len(E)
    npar, mo, tmax = cfg["nparams"], cfg["max_order"], cfg["term_order"]
    rng = np.random.default_rng(5)
    zo = (0,) * npar
    terms = {}
    for o in bd.orders_upto(npar, tmax):
        if sum(o) == 0:
            continue
        M = rng.integers(-4, 5, size=(N, N)) / 2.0
        if cfg.get("complex"):
            M = M + 1j * rng.integers(-4, 5, size=(N, N)) / 2.0
        terms[o] = (M + M.conj().T) / 2 if cfg.get("hermitian", True) else M
    H0 = np.diag(E)
    if cfg.get("sparse"):
        from scipy import sparse

        H0 = sparse.csr_array(H0)
        terms = {o: sparse.csr_array(t) for o, t in terms.items()}
    sizes = cfg["sizes"]
    off = np.cumsum([0] + list(sizes))
    nb = len(sizes)

    def build():
        log = []

        def Heval(*order):
            log.append(tuple(order))
            if tuple(order) == zo:
                return H0
            return terms[tuple(order)]

        H = BlockSeries(eval=Heval, shape=(), n_infinite=npar, name="H")
        kw = dict(hermitian=cfg.get("hermitian", True))
        eye = np.eye(N)
        if mode == "indices":
            kw["subspace_indices"] = [b for b, sz in enumerate(sizes) for _ in range(sz)]
        elif mode == "eigenvectors":
            kw["subspace_eigenvectors"] = [eye[:, off[b] : off[b + 1]] for b in range(nb)]
        elif mode == "implicit":
            kw["subspace_eigenvectors"] = [eye[:, off[b] : off[b + 1]] for b in range(nb - 1)]
        else:
            raise KeyError(mode)
        if cfg.get("fd") is not None:
            kw["fully_diagonalize"] = cfg["fd"]
        out = block_diagonalize(H, **kw)
        return out, log

    sig = f"lazy-formats:{mode}:npar={npar}"
    req = list(bd.orders_upto(npar, mo))
    n_req = 0
    problem = None
    for w in range(3):
        for n in req:
            for (bi, bj) in it.product(range(nb), repeat=2):
                series, log = build()
                bad_def = [c for c in log if c != zo]
                series[w][(bi, bj, *n)]
                n_req += 1
                bad_cone = [c for c in log if not all(a <= b for a, b in zip(c, n))]
                dup = len(log) - len(set(log))
                if bad_def:
                    problem = ("definition", dict(evaluated_at_definition=[list(c) for c in bad_def[:5]], config=cfg))
                elif bad_cone:
                    problem = ("cone", dict(request=[w, bi, bj, *n], outside_cone=[list(c) for c in bad_cone[:5]]))
                elif dup:
                    problem = ("repeat", dict(request=[w, bi, bj, *n], repeated=dup))
                if problem:
                    break
            if problem:
                break
        if problem:
            break
    if problem:
        rec.direct_violation(f"calllog of unblocked lazy series ({mode})", f"{sig}:calllog-{problem[0]}", problem[1], reproduced=True)
    else:
        rec.discharged(f"calllog of unblocked lazy series ({mode}): {n_req} fresh requests, definition evaluates zeroth order only, cone and at-most-once hold", "confirmed")
    rec.nontrivial = n_req > 0
    rec.sample = {"config": cfg, "requests": n_req}
    return rec


def _c12_lazy_second_quantized(rec, cfg):
    """The same call-log obligations for a lazily defined series whose terms are sympy matrices of boson / spin operators
    (the second-quantised path wraps the user's series once more to convert the terms to number-ordered form)."""
    import itertools as it

    import sympy
    from sympy.physics.quantum import Dagger
    from sympy.physics.quantum.boson import BosonOp

    from pymablock import block_diagonalize
    from pymablock.series import BlockSeries, zero

    npar, mo = cfg["nparams"], cfg["max_order"]
    a = BosonOp("a")
    w, d, g, f = sympy.symbols("omega delta g f", positive=True)
    Na = Dagger(a) * a
    zo = (0,) * npar
    nb = cfg.get("nblocks", 2)
    if nb == 2:
        H0 = sympy.Matrix([[w * Na + d, 0], [0, w * Na - d]])
        first = [sympy.Matrix([[0, g * (a + Dagger(a))], [g * (a + Dagger(a)), 0]]), sympy.Matrix([[f * Na, f * a], [f * Dagger(a), -f * Na]])]
        second = sympy.Matrix([[g * Na, 0], [0, -g * Na]])
        kw = dict(subspace_indices=[0, 1])
    else:
        H0 = sympy.Matrix([[w * Na + d * Na * Na]])
        first = [sympy.Matrix([[g * (a + Dagger(a))]]), sympy.Matrix([[f * (a * a + Dagger(a) * Dagger(a))]])]
        second = sympy.Matrix([[g * Na]])
        kw = {}
    terms = {zo: H0}
    for k in range(npar):
        e = tuple(1 if j == k else 0 for j in range(npar))
        terms[e] = first[k]
    terms[tuple(2 if j == 0 else 0 for j in range(npar))] = second

    def build():
        log = []

        def Heval(*order):
            log.append(tuple(order))
            return terms.get(tuple(order), zero)

        H = BlockSeries(eval=Heval, shape=(), n_infinite=npar, name="H")
        return block_diagonalize(H, **kw), log

    sig = f"lazy-formats:second_quantized:nb={nb}:npar={npar}"
    n_req = 0
    problem = None
    for wi, n, (bi, bj) in it.product(range(3), list(bd.orders_upto(npar, mo)), list(it.product(range(nb), repeat=2))):
        try:
            series, log = build()
            bad_def = [c for c in log if c != zo]
            series[wi][(bi, bj, *n)]
        except Exception as e:
            from .herm import library_exception_info

            problem = ("exception", dict(request=[wi, bi, bj, *n], exception=f"{type(e).__name__}: {e}"[:300], where=library_exception_info(e, pure_inputs=True)[1]))
            break
        n_req += 1
        bad_cone = [c for c in log if not all(x <= y for x, y in zip(c, n))]
        dup = len(log) - len(set(log))
        if bad_def:
            problem = ("definition", dict(evaluated_at_definition=[list(c) for c in bad_def[:5]], config=cfg))
        elif bad_cone:
            problem = ("cone", dict(request=[wi, bi, bj, *n], outside_cone=[list(c) for c in bad_cone[:5]]))
        elif dup:
            problem = ("repeat", dict(request=[wi, bi, bj, *n], repeated=dup))
        if problem:
            break
    if problem:
        rec.direct_violation("calllog of a lazily defined second-quantised series", f"{sig}:calllog-{problem[0]}", problem[1], reproduced=True)
    else:
        rec.discharged(f"calllog of a lazily defined second-quantised series: {n_req} fresh requests, definition evaluates zeroth order only, cone and at-most-once hold", "confirmed")
    rec.nontrivial = n_req > 0
    rec.sample = {"config": cfg, "requests": n_req}
    return rec


# ------------------------------------------------------------------------------------------------
# configuration sets


def configs_c13(tier):
    from ..configs import RAT_SPECTRA, RAT_SPECTRA_ALT, CPLX_SPECTRA

    cfgs = []
    layouts = [[1, 1], [1, 2], [2, 1], [1, 1, 1]] + ([[2, 2], [1, 1, 2], [1, 3], [2, 1, 1], [1, 1, 1, 1]] if tier == "thorough" else [])
    rels = ["scale1", "scale2", "merge", "permute", "vanishing", "power2"] + (["power3", "permute3", "merge3_01", "merge3_02", "merge3_12", "merge3_all", "scale3"] if tier == "thorough" else [])
    for herm in (True, False):
        for sizes in layouts:
            N = sum(sizes)
            for r in rels:
                mo = 3
                if r in ("power2",):
                    mo = 2
                if r == "power3":
                    mo = 1 if N > 2 else 2
                if r == "permute3" or r.startswith("merge3") or r == "scale3":
                    mo = 2 if N > 2 else 3
                spec = RAT_SPECTRA[N] if herm else CPLX_SPECTRA.get(N, RAT_SPECTRA[N])
                cfgs.append(dict(carrier="B", hermitian=herm, sizes=sizes, spectrum=spec, relation=r, max_order=mo))
                if N <= 3 and r in ("scale1", "merge", "permute"):
                    cfgs.append(dict(carrier="B", hermitian=herm, sizes=sizes, spectrum="sym", relation=r, max_order=2, complex_spectrum=False))
    # masks / full diagonalisation on carrier A
    if tier == "thorough":
        for r in ("scale1", "scale2", "merge", "permute", "vanishing", "power2"):
            cfgs.append(dict(carrier="A", hermitian=True, sizes=[3], spectrum=["0", "1", "2"], relation=r, max_order=3 if r != "power2" else 2))
            cfgs.append(dict(carrier="A", hermitian=False, sizes=[2, 1], spectrum=["0", "2", "1"], relation=r, max_order=3 if r != "power2" else 2, fd=[0, 1]))
    for r in ("scale2", "merge", "permute", "vanishing"):
        cfgs.append(dict(carrier="A", hermitian=True, sizes=[2, 1], spectrum=["0", "2", "1"], relation=r, max_order=3, fd=[0]))
        cfgs.append(dict(carrier="A", hermitian=True, sizes=[3], spectrum=["0", "1", "2"], relation=r, max_order=2,
                         fd={"0": [[0, 1, 0], [1, 0, 0], [0, 0, 0]]}))
    if tier == "quick":
        # one three-parameter grouping already in the quick tier
        cfgs.append(dict(carrier="B", hermitian=True, sizes=[1, 2], spectrum=RAT_SPECTRA[3], relation="merge3_02", max_order=2))
        cfgs.append(dict(carrier="B", hermitian=False, sizes=[1, 1], spectrum=CPLX_SPECTRA[2], relation="merge3_all", max_order=3))
    jobs = [("vf.props.relations", "c13", c) for c in cfgs]
    for herm in (True, False):
        for sizes in ([1, 1], [1, 2]):
            for rel in ("merge", "permute", "symbol_order", "symbol_order_dict", "symbol_order_dict_int_key", "names_without_symbols", "only_unperturbed_int_key"):
                jobs.append(("vf.props.relations", "c13_sympy", dict(sympy_format=True, hermitian=herm, sizes=sizes, spectrum=RAT_SPECTRA[sum(sizes)], relation=rel, max_order=3)))
    return jobs


def configs_c15(tier):
    from ..configs import RAT_SPECTRA, CPLX_SPECTRA

    cfgs = []

    def add(**kw):
        kw.setdefault("carrier", "B")
        kw.setdefault("max_order", 3)
        cfgs.append(kw)

    for herm in (True, False):
        spec = lambda N: RAT_SPECTRA[N] if herm else CPLX_SPECTRA[N]  # noqa: E731
        # block relabelling: every permutation of the blocks
        for sizes in ([1, 2], [2, 1], [1, 1, 2], [1, 2, 1]) + (([2, 2], [1, 1, 1], [2, 1, 1], [1, 3]) if tier == "thorough" else ()):
            nb = len(sizes)
            for bp in itertools.permutations(range(nb)):
                if list(bp) == list(range(nb)):
                    continue
                add(hermitian=herm, sizes=list(sizes), spectrum=spec(sum(sizes)), relation="relabel", block_perm=list(bp))
        add(hermitian=herm, sizes=[1, 2], spectrum="sym", relation="relabel", block_perm=[1, 0], max_order=2, complex_spectrum=False)
        # basis permutations inside blocks
        add(hermitian=herm, sizes=[2, 1], spectrum=spec(3), relation="permute_basis", basis_perm=[1, 0, 2])
        add(hermitian=herm, sizes=[2, 2], spectrum=spec(4), relation="permute_basis", basis_perm=[1, 0, 3, 2])
        add(hermitian=herm, sizes=[1, 3], spectrum=spec(4), relation="permute_basis", basis_perm=[0, 2, 3, 1])
        # conjugation, shift, scale
        for sizes in ([1, 1], [1, 2], [2, 1], [1, 1, 1]) + (([2, 2], [1, 1, 2]) if tier == "thorough" else ()):
            N = sum(sizes)
            add(hermitian=herm, sizes=list(sizes), spectrum=spec(N), relation="conjugate")
            add(hermitian=herm, sizes=list(sizes), spectrum=spec(N), relation="shift")
            add(hermitian=herm, sizes=list(sizes), spectrum=spec(N), relation="scale", max_order=2 if N > 2 else 3)
            if N <= 3:
                add(hermitian=herm, sizes=list(sizes), spectrum="sym", relation="shift", max_order=2, complex_spectrum=False)
        # rotation inside a degenerate level
        add(hermitian=herm, sizes=[2, 1], spectrum=["0", "0", "1"], relation="rotate", pair=[0, 1], max_order=3)
        add(hermitian=herm, sizes=[1, 2], spectrum=["1", "0", "0"], relation="rotate", pair=[1, 2], max_order=3)
        add(hermitian=herm, sizes=[2, 2], spectrum=["0", "0", "1", "3"], relation="rotate", pair=[0, 1], max_order=2, real_rotation=True)
        if tier == "thorough":
            add(hermitian=herm, sizes=[2, 2], spectrum=["0", "0", "1", "3"], relation="rotate", pair=[0, 1], max_order=3)
            add(hermitian=herm, sizes=[3, 1], spectrum=["0", "0", "2", "1"], relation="rotate", pair=[0, 1], max_order=3)
            add(hermitian=herm, sizes=[1, 1, 2], spectrum=["0", "1", "3", "3"], relation="rotate", pair=[2, 3], max_order=3)
        # direct sums
        add(hermitian=herm, sizes=[1, 1], sizes_b=[1, 1], spectrum=spec(2), spectrum_b=["5", "8"], relation="directsum", max_order=3)
        add(hermitian=herm, sizes=[1, 2], sizes_b=[1, 1], spectrum=spec(3), spectrum_b=["5", "8"], relation="directsum", max_order=2 if tier == "quick" else 3)
        if tier == "thorough":
            add(hermitian=herm, sizes=[1, 1, 1], sizes_b=[1, 1, 1], spectrum=spec(3), spectrum_b=["5", "8", "13"], relation="directsum", max_order=3)
            add(hermitian=herm, sizes=[2, 1], sizes_b=[1, 2], spectrum=spec(3), spectrum_b=["5", "8", "13"], relation="directsum", max_order=3)
    # carrier A: full / selective diagonalisation under relabelling, basis permutation, conjugation, rotation, direct sum
    mask = {"0": [[0, 1, 0], [1, 0, 0], [0, 0, 0]]}
    add(carrier="A", hermitian=True, sizes=[2, 1], spectrum=["0", "2", "1"], relation="relabel", block_perm=[1, 0], fd=[0])
    add(carrier="A", hermitian=True, sizes=[3, 1], spectrum=["0", "2", "2", "4"], relation="relabel", block_perm=[1, 0], fd=mask)
    add(carrier="A", hermitian=True, sizes=[3, 1], spectrum=["0", "2", "2", "4"], relation="permute_basis", basis_perm=[1, 0, 2, 3], fd=mask)
    add(carrier="A", hermitian=True, sizes=[3], spectrum=["0", "1", "2"], relation="permute_basis", basis_perm=[2, 0, 1])
    for herm in (True, False):
        add(carrier="A", hermitian=herm, sizes=[2, 2], spectrum=["1", "3", "2", "2"], relation="shift_numeric", shift="-2")
        add(carrier="A", hermitian=herm, sizes=[2, 2], spectrum=["2", "2", "1", "3"], relation="shift_numeric", shift="-2")
        add(carrier="A", hermitian=herm, sizes=[2, 1], spectrum=["1", "1", "2"], relation="shift_numeric", shift="-1", fd=[1])
        # whole Hamiltonian scaled by 2^-30 and 2^20: far above the documented zero tolerance atol = 1e-12, same gap/energy ratios
        for lg in (-30, 20):
            add(carrier="A", hermitian=herm, sizes=[2, 2], spectrum=["1", "1", "2", "3"], relation="scale_numeric", log2_scale=lg)
            add(carrier="A", hermitian=herm, sizes=[1, 2], spectrum=["0", "1", "2"], relation="scale_numeric", log2_scale=lg, fd=[1])
        add(carrier="A", hermitian=herm, sizes=[3], spectrum=["0", "2", "2"], relation="permute_basis", basis_perm=[1, 0, 2])
        add(carrier="A", hermitian=herm, sizes=[4], spectrum=["0", "0", "1", "2"], relation="permute_basis", basis_perm=[2, 0, 3, 1], max_order=2)
        add(carrier="A", hermitian=herm, sizes=[2, 2], spectrum=["1", "2", "0", "0"], relation="relabel", block_perm=[1, 0])
    add(carrier="A", hermitian=True, sizes=[3], spectrum=["0", "1", "2"], relation="conjugate")
    add(carrier="A", hermitian=True, sizes=[3, 1], spectrum=["0", "2", "2", "4"], relation="conjugate", fd=mask)
    add(carrier="A", hermitian=True, sizes=[3, 1], spectrum=["0", "2", "2", "4"], relation="rotate", pair=[1, 2], fd=[0], max_order=2)
    add(carrier="A", hermitian=True, sizes=[3], spectrum=["0", "2", "2"], relation="rotate", pair=[1, 2], max_order=3)
    add(carrier="A", hermitian=False, sizes=[3], spectrum=["0", "2", "2"], relation="rotate", pair=[1, 2], max_order=3)
    add(carrier="A", hermitian=True, sizes=[1, 1], sizes_b=[1, 1], spectrum=["0", "2"], spectrum_b=["0", "2"], relation="directsum", fd=[0, 1], max_order=3)
    return [("vf.props.relations", "c15", c) for c in cfgs]


def configs_c12a(tier):
    from ..configs import RAT_SPECTRA, CPLX_SPECTRA

    cfgs = []
    for herm in (True, False):
        for sizes in ([1, 1], [1, 2], [2, 1], [1, 1, 1]) + (([2, 2], [1, 1, 2]) if tier == "thorough" else ()):
            N = sum(sizes)
            spec = RAT_SPECTRA[N] if herm else CPLX_SPECTRA[N]
            cfgs.append(dict(carrier="B", hermitian=herm, sizes=list(sizes), spectrum=spec, nparams=1, term_order=4 if N <= 3 else 3, max_order=3 if N <= 3 else 2))
            if N <= 3:
                cfgs.append(dict(carrier="B", hermitian=herm, sizes=list(sizes), spectrum=spec, nparams=2, term_order=3 if tier == "thorough" else 2, max_order=2))
    cfgs.append(dict(carrier="A", hermitian=True, sizes=[2, 1], spectrum=["0", "2", "1"], nparams=1, term_order=4, max_order=3, fd=[0]))
    cfgs.append(dict(carrier="A", hermitian=True, sizes=[3], spectrum=["0", "1", "2"], nparams=2, term_order=2, max_order=2,
                     fd={"0": [[0, 1, 0], [1, 0, 0], [0, 0, 0]]}))
    # an H_0 block that vanishes exactly (library's own solver; passed as the `zero` sentinel / 0-d eigenvalue array)
    cfgs.append(dict(carrier="A", hermitian=True, sizes=[2, 2], spectrum=["0", "0", "1", "2"], nparams=1, term_order=3, max_order=2))
    cfgs.append(dict(carrier="A", hermitian=True, sizes=[2, 1], spectrum=["0", "0", "2"], nparams=2, term_order=2, max_order=2, fd=[0]))
    if tier == "thorough":
        cfgs = [dict(c, schedules=8) for c in cfgs]
    jobs = [("vf.props.relations", "c12a", c) for c in cfgs]
    lazy = []
    for mode in ("indices", "eigenvectors", "implicit"):
        for npar in (1, 2):
            lazy.append(dict(_job="lazy_formats", mode=mode, sizes=[2, 2], spectrum=["0", "2", "1", "4"] if mode != "implicit" else ["0", "2", "5", "9"], nparams=npar,
                             term_order=3 if npar == 1 else 2, max_order=2, hermitian=True))
        lazy.append(dict(_job="lazy_formats", mode=mode, sizes=[2, 2], spectrum=["0", "0", "1", "2"], nparams=1, term_order=3, max_order=2, hermitian=True))
        lazy.append(dict(_job="lazy_formats", mode=mode, sizes=[2, 3], spectrum=["0", "2", "5", "9", "14"], nparams=1, term_order=3, max_order=2, hermitian=False, complex=True))
    lazy.append(dict(_job="lazy_formats", mode="implicit", sizes=[2, 4], spectrum=["0", "2", "5", "9", "14", "20"], nparams=2, term_order=2, max_order=2, hermitian=True, sparse=True))
    lazy.append(dict(_job="lazy_formats", mode="implicit", sizes=[1, 1, 3], spectrum=["0", "2", "5", "9", "14"], nparams=1, term_order=3, max_order=3 if tier == "thorough" else 2, hermitian=True))
    lazy.append(dict(_job="lazy_formats", mode="indices", sizes=[2, 1], spectrum=["0", "1", "3"], nparams=1, term_order=3, max_order=2, hermitian=True, fd=[0]))
    for nbk in (2, 1):
        for npar in (1, 2):
            lazy.append(dict(_job="lazy_formats", mode="second_quantized", nblocks=nbk, nparams=npar, max_order=2 if (tier == "thorough" or npar == 1) else 1, _timeout_s=900))
    jobs += [("vf.props.relations", "c12_lazy_formats", c) for c in lazy]
    return jobs
