"""C01-C04: Hermitian block diagonalisation (shared problem construction, per-property obligations)."""
from __future__ import annotations

from fractions import Fraction

import numpy as np

from .. import bd, symc
from ..engine import Rec
from ..symc import SymC

TOL = 1e-7
NAMES = ["Ht", "U", "Uinv"]


def _sig(cfg, what):
    fd = cfg.get("fd")
    fdk = "none" if fd is None else ("mask" if isinstance(fd, dict) else "blocks")
    spec = cfg.get("spectrum")
    spec = spec if isinstance(spec, str) else "num"
    return f"{what}:carrier={cfg.get('carrier')}:sizes={'|'.join(map(str, cfg['sizes']))}:fd={fdk}:spec={spec}:params={len(cfg['terms'][0])}"


class LibraryRaised(Exception):
    """The real library raised on a well-posed configuration (already recorded in rec as a violation)."""

    def __init__(self, rec):
        self.rec = rec


def library_exception_info(e, pure_inputs=False):
    """(is_library, where): did the exception originate in pymablock code (not in the harness / SymC arithmetic)?"""
    import traceback

    from ..engine import REPO

    tb = traceback.extract_tb(e.__traceback__)
    inner = tb[-1]
    where = f"{inner.filename}:{inner.lineno} in {inner.name}"
    if pure_inputs:
        # inputs are plain sympy/numpy values (no SymC payload): an exception raised by a third-party routine the library
        # called is the library's own as well
        lib = [f for f in tb if f.filename.startswith(str(REPO))]
        if lib:
            return True, f"{lib[-1].filename}:{lib[-1].lineno} in {lib[-1].name} -> {where}"
    return inner.filename.startswith(str(REPO)), where


def _setup(prop, cfg):
    rec = Rec(prop, cfg)
    P = bd.Problem(cfg)
    try:
        Ht, U, Ud = P.run()
        dHt, dU, dUd = P.dense(Ht), P.dense(U), P.dense(Ud)
    except symc.SymbolicDivisionByZero:
        raise
    except Exception as e:
        is_lib, where = library_exception_info(e)
        via_third_party = False
        if not is_lib:
            # raised inside numpy/sympy called by the library: the library's own only if the concrete replay below raises as well
            is_lib2, where2 = library_exception_info(e, pure_inputs=True)
            if not is_lib2:
                raise
            via_third_party, where = True, where2
        # replay at a seeded rational point through the public API with concrete values
        from .. import sympy_bridge as sb

        model = sb.random_point(int(cfg.get("_seed", 0)))
        reproduced = False
        try:
            _numeric(P, model, callback=(P.carrier == "B"))
        except Exception as e2:
            reproduced = type(e2) is type(e)
        if via_third_party and not reproduced:
            raise  # artefact of the symbolic carrier, not of the library
        rec.direct_violation(
            f"library raised {type(e).__name__} on a well-posed input", _sig(cfg, "raised-" + type(e).__name__),
            {"exception": f"{type(e).__name__}: {e}", "where": where, "replayed_with_concrete_values": reproduced}, reproduced=reproduced,
        )
        raise LibraryRaised(rec)
    rec.sample = {
        "config": cfg,
        "symbolic_inputs": sorted(symc.CTX.vars)[:12] + (["..."] if len(symc.CTX.vars) > 12 else []),
        "n_symbolic_reals": len(symc.CTX.vars),
        "denominator_atoms": [str(a) for a in list(symc.CTX.atoms.values())[:6]],
    }
    from .. import solver

    rec.guard("assumptions_sat", solver.assumptions_sat() == "sat")
    if P.carrier == "C":
        ok = P.validate_translation(seed=int(cfg.get("_seed", 0)))
        rec.guard("sympy_translation_validated", ok is not False, ok)
    return rec, P, Ht, U, Ud, dHt, dU, dUd


def _numeric(P, model, callback):
    if P.carrier == "C":
        return bd.sympy_run(P, model)
    E, terms = P.concretize(model)
    return bd.numeric_run(
        P.sizes, E, terms, hermitian=P.hermitian, fd=P.cfg.get("fd"), max_order=P.max_order, callback=callback, int_h0=bool(P.cfg.get("int_h0"))
    )


def _scale(*arrs):
    return max(1.0, max(float(np.max(np.abs(a))) if a is not None and a.size else 0.0 for a in arrs))


# ------------------------------------------------------------------------------------------------


def c01(cfg, prop="C01"):
    try:
        rec, P, Ht, U, Ud, dHt, dU, dUd = _setup(prop, cfg)
    except LibraryRaised as lr:
        return lr.rec
    elim, kept = P.elim, ~P.elim
    first = None
    for o in P.orders:
        if sum(o) == 1 and first is None:
            first = o

    def replay_factory(order, part):
        def replay(model):
            nHt, nU, nUd, nH = _numeric(P, model, callback=(P.carrier == "B"))
            T = bd.np_cauchy([nUd, nH, nU], order)
            T = np.zeros((P.N, P.N)) if T is None else T
            if part == "kept":
                err = float(np.max(np.abs((T - nHt[order])[kept]))) if kept.any() else 0.0
            else:
                err = float(np.max(np.abs(T[elim]))) if elim.any() else 0.0
            sc = _scale(T, nHt[order])
            return err > TOL * sc, {"order": list(order), "part": part, "max_abs_error": err, "scale": sc}

        return replay

    bad_kept = bad_elim = False
    for o in P.orders:
        T = bd.cauchy([dUd, P.H, dU], o)
        if not bad_kept:
            v = rec.oblige(f"UdHU==Ht kept order={o}", T[kept], dHt.get(o)[kept], sig=_sig(cfg, "kept"), replay=replay_factory(o, "kept"))
            bad_kept = v == "sat"
            if v not in ("structural",) and sum(o) >= 1:
                rec.nontrivial = True
        if elim.any() and not bad_elim:
            v = rec.oblige(f"UdHU==0 eliminated order={o}", T[elim], None, sig=_sig(cfg, "elim"), replay=replay_factory(o, "elim"))
            bad_elim = v == "sat"
            if v not in ("structural",) and sum(o) >= 1:
                rec.nontrivial = True
        if o == first:
            # reachability twins: the first-order kept part is not identically zero; U_1 is not zero
            rec.guard_twin("twin_Ht1_nonzero", T[kept], symc.zeros(P.N, P.N)[kept])
            if elim.any():
                rec.guard_twin("twin_U1_nonzero", dU.get(o), symc.zeros(P.N, P.N))
    return rec


def c02(cfg, prop="C02"):
    try:
        rec, P, Ht, U, Ud, dHt, dU, dUd = _setup(prop, cfg)
    except LibraryRaised as lr:
        return lr.rec
    N = P.N
    I, Z = symc.eye(N), symc.zeros(N, N)

    def rp(kind, order):
        def replay(model):
            nHt, nU, nUd, nH = _numeric(P, model, callback=(P.carrier == "B"))
            if kind == "UdU":
                T = bd.np_cauchy([nUd, nU], order)
                ref = np.eye(N) if sum(order) == 0 else np.zeros((N, N))
            elif kind == "UUd":
                T = bd.np_cauchy([nU, nUd], order)
                ref = np.eye(N) if sum(order) == 0 else np.zeros((N, N))
            elif kind == "adj":
                T, ref = nUd[order], nU[order].conj().T
            else:
                T, ref = nHt[order], nHt[order].conj().T
            err = float(np.max(np.abs(T - ref)))
            sc = _scale(T, ref)
            return err > TOL * sc, {"kind": kind, "order": list(order), "max_abs_error": err, "scale": sc}

        return replay

    bad = set()
    for o in P.orders:
        ref = I if sum(o) == 0 else Z
        checks = [
            ("UdU", lambda: (bd.cauchy([dUd, dU], o), ref)),
            ("UUd", lambda: (bd.cauchy([dU, dUd], o), ref)),
            ("adj", lambda: (dUd.get(o), symc.dagger(dU.get(o)))),
            ("Hherm", lambda: (dHt.get(o), symc.dagger(dHt.get(o)))),
        ]
        for kind, f in checks:
            if kind in bad:
                continue
            A, B = f()
            v = rec.oblige(f"{kind} order={o}", A, B, sig=_sig(cfg, kind), replay=rp(kind, o))
            if v == "sat":
                bad.add(kind)
            if v != "structural" and sum(o) >= 1:
                rec.nontrivial = True
        if sum(o) == 1 and "twin_U1_nonzero" not in rec.guards and P.elim.any():
            rec.guard_twin("twin_U1_nonzero", dU.get(o), Z)
    return rec


# ------------------------------------------------------------------------------------------------
# C03: gauge + independent reference solver


def reference_solution(P):
    """Unoptimised order-by-order solution of unitarity + elimination + least-action gauge (own code)."""
    N = P.N
    H = P.H
    zo = P.zero_order
    U = bd.Series((N, N), P.nparams, {zo: symc.eye(N)})
    Ud = bd.Series((N, N), P.nparams, {zo: symc.eye(N)})
    Ht = bd.Series((N, N), P.nparams, {zo: P.H0})
    E = P.E
    for o in sorted(P.orders, key=lambda t: (sum(t), t)):
        if o == zo:
            continue
        # unitarity: U_n + U_n^dagger = - sum' Ud_a U_{n-a}
        S = symc.zeros(N, N)
        for comp in bd.compositions(o, 2):
            if comp[0] == zo or comp[1] == zo:
                continue
            if comp[0] in Ud and comp[1] in U:
                S = S + symc.mm(Ud.data[comp[0]], U.data[comp[1]])
        W = S / (-2)
        # R = all triple terms except those containing U_n or Ud_n
        R = symc.zeros(N, N)
        for a, b, c in bd.compositions(o, 3):
            if a == o or c == o:
                continue
            if a in Ud and b in H and c in U:
                R = R + symc.mm(symc.mm(Ud.data[a], H.data[b]), U.data[c])
        G = R + symc.mm(P.H0, W) + symc.mm(W, P.H0)
        V = symc.zeros(N, N)
        for i in range(N):
            for j in range(N):
                if P.elim[i, j]:
                    V[i, j] = -G[i, j] / (E[i] - E[j])
        U.data[o] = W + V
        Ud.data[o] = W - V
        full = G + symc.mm(P.H0, V) - symc.mm(V, P.H0)
        Ht.data[o] = np.where(P.elim, symc.zeros(N, N), full)
    return Ht, U, Ud


def c03(cfg, prop="C03"):
    try:
        rec, P, Ht, U, Ud, dHt, dU, dUd = _setup(prop, cfg)
    except LibraryRaised as lr:
        return lr.rec
    N = P.N
    kept = ~P.elim
    rHt, rU, rUd = reference_solution(P)

    def rp(kind, order):
        def replay(model):
            nHt, nU, nUd, nH = _numeric(P, model, callback=(P.carrier == "B"))
            if kind == "gauge":
                A = ((nU[order] - nUd[order]) / 2)[kept]
                err = float(np.max(np.abs(A))) if A.size else 0.0
                return err > TOL * _scale(nU[order]), {"kind": kind, "order": list(order), "max_abs_error": err}
            # compare with the exact reference evaluated at the model point
            ref = {"Ht": rHt, "U": rU, "Ud": rUd}[kind].get(order)
            lib = {"Ht": nHt, "U": nU, "Ud": nUd}[kind][order]
            refn = np.array([[complex(*map(float, bd.evaluate(ref[i, j], model))) for j in range(N)] for i in range(N)])
            err = float(np.max(np.abs(lib - refn)))
            return err > TOL * _scale(lib, refn), {"kind": kind, "order": list(order), "max_abs_error": err}

        return replay

    bad = set()
    for o in P.orders:
        if sum(o) == 0:
            continue
        half = (dU.get(o) - dUd.get(o)) / 2
        items = [
            ("gauge", half[kept], None),
            ("Ht", dHt.get(o), rHt.get(o)),
            ("U", dU.get(o), rU.get(o)),
            ("Ud", dUd.get(o), rUd.get(o)),
        ]
        for kind, A, B in items:
            if kind in bad:
                continue
            v = rec.oblige(f"{kind} order={o}", A, B, sig=_sig(cfg, kind), replay=rp(kind, o))
            if v == "sat":
                bad.add(kind)
            if v != "structural":
                rec.nontrivial = True
        if sum(o) == 1 and "twin_ref_gauge" not in rec.guards and P.elim.any():
            # twin: a reference with the opposite gauge sign for V must be refuted
            rec.guard_twin("twin_ref_gauge", dU.get(o), rUd.get(o))
    return rec


# ------------------------------------------------------------------------------------------------
# C04: spectrum via truncated power sums (never looks at U)


def _series_power_traces(S, N, orders, kmax):
    """tr[(sum_n lambda^n S_n)^k] truncated to `orders`, for k=1..kmax; returns {k: {order: SymC}}."""
    out = {}
    power = S
    for k in range(1, kmax + 1):
        if k > 1:
            power = bd.Series((N, N), S.nparams, {o: bd.cauchy([power, S], o) for o in orders})
        out[k] = {}
        for o in orders:
            M = power.get(o)
            tr = SymC(symc.R0)
            for i in range(N):
                tr = tr + M[i, i]
            out[k][o] = tr
    return out


def c04(cfg, prop="C04"):
    try:
        rec, P, Ht, U, Ud, dHt, dU, dUd = _setup(prop, cfg)
    except LibraryRaised as lr:
        return lr.rec
    N = P.N
    orders = P.orders
    Htr = bd.Series((N, N), P.nparams, {o: dHt.get(o) for o in orders})
    Hin = bd.Series((N, N), P.nparams, {o: v for o, v in P.H.data.items() if o in set(orders)})
    kmax = N
    lhs = _series_power_traces(Htr, N, orders, kmax)
    rhs = _series_power_traces(Hin, N, orders, kmax)

    def rp(k, order):
        def replay(model):
            nHt, nU, nUd, nH = _numeric(P, model, callback=(P.carrier == "B"))
            # numeric power sums of the truncated series
            def traces(S):
                power = S
                for _ in range(k - 1):
                    power = {o: bd.np_cauchy([power, S], o) for o in orders}
                    power = {o: v for o, v in power.items() if v is not None}
                M = power.get(order)
                return 0.0 if M is None else np.trace(M)

            a = traces({o: nHt[o] for o in orders})
            b = traces({o: v for o, v in nH.items() if o in set(orders)})
            err = abs(a - b)
            return err > TOL * max(1.0, abs(a), abs(b)), {"k": k, "order": list(order), "abs_error": float(err)}

        return replay

    bad = False
    for k in range(1, kmax + 1):
        for o in orders:
            if bad:
                break
            v = rec.oblige_clauses(
                f"tr(Ht^{k})==tr(H^{k}) order={o}", (lhs[k][o] - rhs[k][o]).nonzero_clauses(),
                sig=_sig(cfg, "powersum"), replay=rp(k, o),
            )
            bad = v == "sat"
            if v != "structural" and sum(o) >= 1:
                rec.nontrivial = True
    # Rayleigh-Schroedinger closed formulas for fully diagonalised, non-degenerate problems (single 1st-order term)
    full_diag = all(P.elim[i, j] for i in range(N) for j in range(N) if i != j)
    if full_diag and P.terms == [(1,)] and P.max_order >= 2:
        h = P.H.data[(1,)]
        E = P.E

        def rs_replay(order):
            def replay(model):
                nHt, nU, nUd, nH = _numeric(P, model, callback=(P.carrier == "B"))
                Ev, terms = P.concretize(model)
                h1 = terms[(1,)]
                Ev = np.array(Ev)
                out = []
                for i in range(N):
                    others = [j for j in range(N) if j != i]
                    if order == 2:
                        out.append(sum(abs(h1[i, j]) ** 2 / (Ev[i] - Ev[j]) for j in others))
                    else:
                        out.append(
                            sum(h1[i, j] * h1[j, k] * h1[k, i] / ((Ev[i] - Ev[j]) * (Ev[i] - Ev[k])) for j in others for k in others)
                            - h1[i, i] * sum(abs(h1[i, j]) ** 2 / (Ev[i] - Ev[j]) ** 2 for j in others)
                        )
                err = float(np.max(np.abs(np.diag(nHt[(order,)]) - np.array(out))))
                return err > TOL * _scale(nHt[(order,)]), {"rs_order": order, "max_abs_error": err}

            return replay

        for i in range(N):
            others = [j for j in range(N) if j != i]
            e2 = SymC(symc.R0)
            for j in others:
                e2 = e2 + h[i, j] * h[j, i] / (E[i] - E[j])
            rec.oblige_clauses(f"RS2 level {i}", (dHt.get((2,))[i, i] - e2).nonzero_clauses(), sig=_sig(cfg, "RS2"), replay=rs_replay(2))
            if P.max_order >= 3:
                e3 = SymC(symc.R0)
                for j in others:
                    for k in others:
                        e3 = e3 + h[i, j] * h[j, k] * h[k, i] / ((E[i] - E[j]) * (E[i] - E[k]))
                    e3 = e3 - h[i, i] * h[i, j] * h[j, i] / ((E[i] - E[j]) * (E[i] - E[j]))
                rec.oblige_clauses(f"RS3 level {i}", (dHt.get((3,))[i, i] - e3).nonzero_clauses(), sig=_sig(cfg, "RS3"), replay=rs_replay(3))
    # twin: dropping the second-order term of H_tilde must break the k=2 power sum at second order
    second = [o for o in orders if sum(o) == 2]
    if second and P.elim.any() and N >= 2:
        Hbad = bd.Series((N, N), P.nparams, {o: v for o, v in Htr.data.items() if sum(o) != 2})
        lb = _series_power_traces(Hbad, N, orders, 2)
        cl = []
        for o in second:
            cl += (lb[2][o] - rhs[2][o]).nonzero_clauses()
        import z3

        from .. import solver

        if cl:
            s = solver._base_solver(60_000)
            s.add(z3.Or(cl))
            rec.guard("twin_drop_Ht2_detected", str(s.check()) == "sat")
        else:
            rec.guard("twin_drop_Ht2_detected", False, "structurally equal")
    return rec


# ------------------------------------------------------------------------------------------------
# dtype-branch twin (C01 / C05): the object-array carrier cannot follow `dtype`-dependent branches of the library (float64 vs
# complex128 vs int inputs, `np.iscomplexobj`, in-place arithmetic on typed arrays).  The symbolic run is decided correct by the
# solver in the other jobs; here the SAME real code is run on typed numpy inputs at one dyadic point per dtype variant and must
# reproduce the symbolic result evaluated at that point (translation validation of the dtype branches, concrete by nature).

_TWIN_VALUES = [Fraction(1), Fraction(-1), Fraction(2), Fraction(1, 2), Fraction(-3, 2), Fraction(3), Fraction(-2), Fraction(1, 4), Fraction(-1, 2)]
_TWIN_INTS = [Fraction(1), Fraction(-1), Fraction(2), Fraction(-2), Fraction(3)]


def dtype_twin(cfg):
    prop = "C01" if cfg.get("hermitian", True) else "C05"
    rec = Rec(prop, cfg)
    P = bd.Problem(cfg)
    assert P.E_num is not None, "dtype twin needs a numeric spectrum"
    Ht, U, Ud = P.run()
    sym = [P.dense(S) for S in (Ht, U, Ud)]
    names = sorted(symc.CTX.vars)
    variant = cfg["dtype"]
    model = {}
    prefixes = sorted({nm.split("_")[0] for nm in names})
    real_terms = set(prefixes[1::2]) if variant == "mixed" else set()
    for k, nm in enumerate(names):
        if nm.endswith("_i") and (variant in ("float64", "int") or nm.split("_")[0] in real_terms):
            model[nm] = Fraction(0)
        else:
            pool = _TWIN_INTS if variant == "int" else _TWIN_VALUES
            model[nm] = pool[(3 * k + len(nm)) % len(pool)]
    E, terms = P.concretize(model)
    for k, parts in (cfg.get("noise") or {}).items():
        # the same level written as a float sum: equal to its partner within the documented tolerance but not bit for bit
        tot = 0.0
        for x in parts:
            tot += float(x)
        assert abs(tot - E[int(k)].real) < 1e-12 and tot != E[int(k)].real, "noise must be a rounding-level perturbation"
        E[int(k)] = complex(tot, E[int(k)].imag)
    if variant == "float64":
        assert all(abs(np.asarray(t).imag).max() == 0 for t in terms.values())
        terms = {o: np.ascontiguousarray(t.real, dtype=float) for o, t in terms.items()}
    elif variant == "int":
        terms = {o: np.ascontiguousarray(t.real).astype(int) for o, t in terms.items()}
    elif variant == "mixed":
        # terms whose imaginary parts vanish at the point are passed as float64 arrays, the others as complex128
        terms = {o: (np.ascontiguousarray(t.real, dtype=float) if not np.any(t.imag) else t) for o, t in terms.items()}
        assert len({t.dtype for t in terms.values()}) == 2, "mixed variant needs one real and one complex term"
    snapshot = {o: t.copy() for o, t in terms.items()}
    units = cfg.get("units_exp")
    try:
        if units is not None:
            # the same problem in other units: every input (and the tolerance) multiplied by 2**units, exact in binary floating point;
            # H_tilde must scale by the same factor and U, U^dagger must not change.  Unblocked matrices + subspace_indices + atol.
            num = _scaled_units_run(P, E, terms, 2.0 ** int(units))
        else:
            num = bd.numeric_run(P.sizes, E, terms, hermitian=P.hermitian, fd=cfg.get("fd"), max_order=P.max_order, callback=(P.carrier == "B"),
                                 int_h0=(variant == "int" and all(Fraction(x).denominator == 1 for x in cfg["spectrum"])))
    except Exception as e:  # noqa: BLE001
        is_lib, where = library_exception_info(e, pure_inputs=True)
        if not is_lib:
            raise
        rec.direct_violation(f"library raised on {variant} input", _sig(cfg, f"dtype-{variant}-raised-{type(e).__name__}"),
                             {"exception": f"{type(e).__name__}: {e}"[:300], "where": where}, reproduced=True)
        return rec
    worst = 0.0
    bad = None
    for w in range(3):
        for o in P.orders:
            S = sym[w].get(o)
            want = np.array([[complex(*map(float, bd.evaluate(S[i, j], model))) for j in range(P.N)] for i in range(P.N)])
            got = np.asarray(num[w][o], dtype=complex)
            err = float(np.max(np.abs(got - want)))
            sc = max(1.0, float(np.max(np.abs(want))))
            worst = max(worst, err / sc)
            if err > 1e-9 * sc and bad is None:
                bad = dict(series=NAMES[w], order=list(o), max_abs_error=err, scale=sc, dtype=variant, units_exp=units)
    mutated = [list(o) for o, t in terms.items() if not np.array_equal(t, snapshot[o])]
    if bad:
        rec.direct_violation(f"{variant} run differs from the symbolic run at the same point", _sig(cfg, f"dtype-{variant}" + (f"-units2^{units}" if units is not None else "")), bad, reproduced=True)
    elif mutated:
        rec.direct_violation(f"{variant} run modified the caller's input arrays", _sig(cfg, f"dtype-{variant}-input-mutated"), {"orders": mutated, "dtype": variant}, reproduced=True)
    else:
        rec.discharged(f"{variant} library run == symbolic run evaluated at the dyadic point, all series and orders (max rel. dev. {worst:.1e}); inputs unmodified", "confirmed")
    rec.nontrivial = True
    rec.sample = {"config": cfg, "variables": len(names)}
    return rec


def _scaled_units_run(P, E, terms, s):
    """block_diagonalize on unblocked numpy matrices (dict input, subspace_indices) in units scaled by s, tolerance scaled alike;
    returns the dense results converted back to the original units."""
    from pymablock import block_diagonalize
    from pymablock.series import one, zero

    E = np.array(E, dtype=complex)
    E = E.real if np.allclose(E.imag, 0) else E
    ham = {P.zero_order: np.diag(E) * s}
    for o, t in terms.items():
        ham[tuple(o)] = np.asarray(t) * s
    kw = {}
    fd = P.cfg.get("fd")
    if fd is not None:
        kw["fully_diagonalize"] = {int(b): np.array(m, dtype=bool) for b, m in fd.items()} if isinstance(fd, dict) else tuple(fd)
    Ht, U, Ui = block_diagonalize(ham, subspace_indices=list(P.blockof), hermitian=P.hermitian, atol=1e-12 * s, **kw)

    def full(S, order, factor):
        rows = []
        for i in range(P.nb):
            row = []
            for j in range(P.nb):
                v = S[(i, j, *order)]
                if v is zero:
                    v = np.zeros((P.sizes[i], P.sizes[j]))
                elif v is one:
                    v = np.eye(P.sizes[i])
                else:
                    v = np.asarray(v.toarray() if hasattr(v, "toarray") else v, dtype=complex) / factor
                row.append(np.asarray(v, dtype=complex))
            rows.append(row)
        return np.block(rows)

    return ({o: full(Ht, o, s) for o in P.orders}, {o: full(U, o, 1.0) for o in P.orders}, {o: full(Ui, o, 1.0) for o in P.orders}, None)


def dtype_twin_configs(tier, hermitian=True):
    base = [
        dict(carrier="A", sizes=[1, 1], spectrum=["0", "2"], terms=[[1]], max_order=4),
        dict(carrier="A", sizes=[2, 2], spectrum=["0", "2", "1", "4"], terms=[[1], [2]], max_order=3),
        dict(carrier="A", sizes=[2, 1], spectrum=["0", "0", "2"], terms=[[1]], max_order=3),
        dict(carrier="A", sizes=[2, 2], spectrum=["0", "2", "1", "4"], terms=[[1]], max_order=3, fd=[0]),
        dict(carrier="A", sizes=[3], spectrum=["0", "1", "2"], terms=[[1]], max_order=3),
        dict(carrier="A", sizes=[1, 2], spectrum=["0", "1", "2"], terms=[[1]], max_order=3, fd={"1": [[0, 1], [1, 0]]}),
        dict(carrier="A", sizes=[1, 1, 2], spectrum=["0", "1", "2", "2"], terms=[[1, 0], [0, 1]], max_order=2),
        dict(carrier="B", sizes=[1, 2], spectrum=["0", "1", "3"], terms=[[1], [2]], max_order=3),
    ]
    # a degenerate level whose two members differ at rounding level in the typed run (0.1 + 0.2 vs 0.3): degeneracy is decided with the
    # documented tolerance atol, consistently by the keep mask and by the diagonal solver
    base += [
        dict(carrier="A", sizes=[3], spectrum=["3/10", "3/10", "23/10"], terms=[[1]], max_order=3, noise={"1": [0.1, 0.2]}),
        dict(carrier="A", sizes=[2, 1], spectrum=["3/10", "3/10", "23/10"], terms=[[1]], max_order=3, fd=[0], noise={"0": [0.1, 0.2]}),
    ]
    if tier == "thorough":
        base += [
            dict(carrier="A", sizes=[2, 2], spectrum=["1", "2", "0", "0"], terms=[[1]], max_order=3),
            dict(carrier="A", sizes=[3, 1], spectrum=["0", "2", "2", "4"], terms=[[1]], max_order=4, fd={"0": [[0, 1, 1], [1, 0, 0], [1, 0, 0]]}),
            dict(carrier="A", sizes=[1, 1, 1], spectrum=["0", "1", "2"], terms=[[1], [2]], max_order=4),
            dict(carrier="B", sizes=[2, 2], spectrum=["0", "1", "3", "7"], terms=[[1, 0], [0, 1], [1, 1]], max_order=3),
            dict(carrier="B", sizes=[1, 1, 2], spectrum=["0", "1", "3", "7"], terms=[[1]], max_order=4),
        ]
    out = []
    for b in base:
        for variant in ("float64", "complex128", "mixed", "int"):
            if variant == "mixed" and len(b["terms"]) < 2:
                continue
            out.append(dict(b, hermitian=hermitian, dtype=variant, _job="dtype_twin"))
    # the same typed problems in much smaller / larger units (H and atol scaled by an exact power of two)
    for b in (base[1], base[3], base[4], base[5]) + ((base[2], base[6]) if tier == "thorough" else ()):
        if b["carrier"] != "A":
            continue
        for units in (-44, 30):
            for variant in ("float64", "complex128"):
                out.append(dict(b, hermitian=hermitian, dtype=variant, units_exp=units, _job="dtype_twin"))
    return out
