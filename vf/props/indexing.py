"""C19: BlockSeries indexing = numpy indexing with masking, exactly-once evaluation, IndexError / RuntimeError rules.

The contracts live in vf/ch/indexing.py; this module runs CrossHair on each of them (one subprocess per contract,
hard time limit), accepts only "Confirmed over all paths", and replays counterexamples by calling the contract
concretely against the real code.
"""
from __future__ import annotations

import ast
import os
import re
import subprocess
import sys
import time
from pathlib import Path

from ..engine import REPO, VERIF, Rec

HARNESS = VERIF / "vf" / "ch" / "indexing.py"


def _contracts():
    src = HARNESS.read_text()
    tree = ast.parse(src)
    out = []
    for node in tree.body:
        if isinstance(node, ast.FunctionDef) and ast.get_docstring(node) and "post:" in ast.get_docstring(node):
            out.append((node.name, node.lineno + 1))
    return out


def c19_contract(cfg):
    rec = Rec("C19", cfg)
    name, line = cfg["contract"], cfg["line"]
    env = dict(os.environ, PYTHONPATH=f"{VERIF}:{REPO}", PYTHONWARNINGS="ignore")
    cmd = [str(VERIF / ".venv" / "bin" / "crosshair"), "check", "--report_all", "--per_condition_timeout", str(cfg["per_condition_timeout"]),
           "--per_path_timeout", str(cfg.get("per_path_timeout", 30)), f"{cfg.get('harness', HARNESS)}:{line}"]
    t0 = time.time()
    try:
        p = subprocess.run(cmd, env=env, capture_output=True, text=True, timeout=cfg["per_condition_timeout"] + 120)
        out = p.stdout + p.stderr
    except subprocess.TimeoutExpired as e:
        out = "TIMEOUT " + str(e)
    dt = time.time() - t0
    sig = f"contract:{name}"
    if cfg.get("harness"):
        sig += ":wide"
    rec.sample = {"config": cfg, "crosshair_output": out.strip()[-400:], "seconds": round(dt, 1)}
    rec.nontrivial = True
    if "Confirmed over all paths" in out:
        rec.discharged(f"{name}: Confirmed over all paths ({dt:.0f}s)", "confirmed")
        return rec
    m = re.search(r"error: (.*?) when calling (\w+)\((.*?)\)(?: \(which (.*?)\))?\s*$", out, re.M)
    if m:
        what, fn, args = m.group(1), m.group(2), m.group(3)
        reproduced, detail = _replay(fn, args)
        rec.direct_violation(f"{name}({args}): {what}", sig + ":" + _classify(fn, args), dict(detail, crosshair=out.strip()[-300:]), reproduced=reproduced)
        return rec
    rec.discharged(f"{name}: {out.strip()[-200:] or 'no verdict'}", "unknown", reason=out.strip()[-300:])
    return rec


def _classify(fn, args):
    """Signature class of a counterexample (used by known_findings.json)."""
    try:
        vals = ast.literal_eval(f"({args},)")
    except Exception:
        return "unparsed"
    if fn in ("int_index", "two_infinite", "scalar_series", "order_list") and any(isinstance(v, int) and v < 0 for v in vals[-2:]):
        return "negative-integer-order"
    return "other"


def _replay(fn, args):
    """Call the contract concretely (real pymablock from the current tree)."""
    sys.path[:0] = [str(VERIF), str(REPO)]
    import importlib

    mod = importlib.import_module("vf.ch.indexing")
    try:
        vals = ast.literal_eval(f"({args},)")
        res = getattr(mod, fn)(*vals)
        return (res is not True), {"call": f"{fn}({args})", "returned": repr(res)}
    except Exception as e:  # an exception escaping the contract is a violation of the contract as well
        return True, {"call": f"{fn}({args})", "raised": f"{type(e).__name__}: {e}"}


def c19_recursion(cfg):
    """Self-referential definitions raise RuntimeError instead of recursing forever (concrete)."""
    from pymablock.series import BlockSeries

    rec = Rec("C19", cfg)
    rec.nontrivial = True
    cases = {
        "direct": lambda: _self_ref(lambda s, n: s[n]),
        "shifted_up": lambda: _self_ref(lambda s, n: s[n + 1] if n < 3 else s[n]),
        "two_series": _mutual,
        "view": lambda: _self_ref2(),
    }
    for name, fn in cases.items():
        try:
            fn()
        except RuntimeError:
            rec.discharged(f"self-reference '{name}' raises RuntimeError", "confirmed")
        except RecursionError as e:
            rec.direct_violation(f"self-reference '{name}' recursed", f"recursion:{name}", {"error": "RecursionError"})
        except Exception as e:
            rec.direct_violation(f"self-reference '{name}' raised {type(e).__name__}", f"recursion:{name}", {"error": f"{type(e).__name__}: {e}"})
        else:
            rec.direct_violation(f"self-reference '{name}' returned a value", f"recursion:{name}", {})
    rec.sample = {"config": cfg}
    return rec


def _self_ref(f):
    from pymablock.series import BlockSeries

    s = BlockSeries(eval=lambda n: f(s, n), shape=(), n_infinite=1)
    return s[2]


def _self_ref2():
    from pymablock.series import BlockSeries

    s = BlockSeries(eval=lambda i, j, n: s[j, i][n] if i != j else s[i, j, n], shape=(2, 2), n_infinite=1)
    return s[0, 1, 1]


def _mutual():
    from pymablock.series import BlockSeries

    a = BlockSeries(eval=lambda n: b[n], shape=(), n_infinite=1)
    b = BlockSeries(eval=lambda n: a[n], shape=(), n_infinite=1)
    return a[1]


def _write_wide():
    """Thorough tier: the same contracts over boxes widened by one in every direction (generated file, not committed)."""
    src = HARNESS.read_text()

    def widen(m):
        lo, var, hi = int(m.group(1)), m.group(2), int(m.group(3))
        if var == "step":
            return f"{lo} <= {var} <= {hi + 1}"
        if var in ("use_list", "extra"):
            return m.group(0)
        return f"{lo - 1} <= {var} <= {hi + 1}"

    out = []
    for ln in src.splitlines():
        if ln.strip().startswith("pre:"):
            ln = re.sub(r"(-?\d+) <= (\w+) <= (-?\d+)", widen, ln)
        out.append(ln)
    wide = HARNESS.with_name("_indexing_wide.py")
    wide.write_text("\n".join(out) + "\n")
    return wide


def configs(tier):
    jobs = []
    tmo = 240 if tier == "quick" else 600
    for name, line in _contracts():
        jobs.append(("vf.props.indexing", "c19_contract", dict(contract=name, line=line, per_condition_timeout=tmo, _timeout_s=tmo + 180)))
    if tier == "thorough":
        wide = _write_wide()
        # only contracts whose oracle is range-agnostic (everything goes through `_check`) may be widened mechanically
        widenable = {"int_index", "order_slice", "order_slice_open_start", "order_slice_no_stop", "block_and_order_slices", "list_index",
                     "order_list", "two_infinite", "two_infinite_slices", "scalar_series", "scalar_series_slice", "wrong_number_of_indices",
                     "three_finite_dims_int", "three_finite_dims_int_last"}
        for name, line in _contracts():
            if name not in widenable:
                continue
            jobs.append(("vf.props.indexing", "c19_contract", dict(contract=name, line=line, harness=str(wide), per_condition_timeout=1500, per_path_timeout=60, _timeout_s=1700, _cost=10)))
    jobs.append(("vf.props.indexing", "c19_recursion", dict(recursion=True)))
    return jobs
