"""C07: second-quantised block diagonalisation (operator identities on a symbolic Fock state + matrix comparison),
and the second-quantised Sylvester solver part of C16."""
from __future__ import annotations

import numpy as np
import sympy
from sympy.physics.quantum import Dagger, pauli
from sympy.physics.quantum.boson import BosonOp
from sympy.physics.quantum.fermion import FermionOp

from .. import fock, symc
from ..engine import Rec

TOL = 1e-7


def models(name):
    """name -> dict(modes, H0 (expr or matrix), H1, params, fd (mask expression or None), blocks)."""
    from pymablock.number_ordered_form import LadderOp, NumberOperator

    a, b = BosonOp("a"), BosonOp("b")
    c, d, e = FermionOp("c"), FermionOp("d"), FermionOp("e")
    sm = pauli.SigmaMinus("s")
    sp = pauli.SigmaPlus("s")
    l = LadderOp("l")
    w, wb, al, wq, ec, ed, ee, D = sympy.symbols("omega omega_b alpha omega_q e_c e_d e_e Delta", real=True)
    Na, Nb = Dagger(a) * a, Dagger(b) * b
    M = {
        "anharmonic3": dict(modes=[a], H0=w * Na, H1=(a + Dagger(a)) ** 3),
        "anharmonic4": dict(modes=[a], H0=w * Na + al * Na * Na, H1=(a + Dagger(a)) ** 4),
        "displaced": dict(modes=[a], H0=w * Na, H1=a + Dagger(a)),
        "kerr_drive": dict(modes=[a], H0=w * Na + al * Dagger(a) * Dagger(a) * a * a, H1=a * a + Dagger(a) * Dagger(a)),
        "two_bosons": dict(modes=[a, b], H0=w * Na + wb * Nb, H1=Dagger(a) * b + Dagger(b) * a + Dagger(a) * Dagger(a) * b + Dagger(b) * a * a),
        "rabi": dict(modes=[a, sm], H0=w * Na + wq * pauli.SigmaZ("s") / 2, H1=(a + Dagger(a)) * (sm + sp)),
        "jc_detuned": dict(modes=[a, sm], H0=w * Na + wq * pauli.SigmaZ("s") / 2, H1=a * sp + Dagger(a) * sm + (a + Dagger(a))),
        "fermion_hop2": dict(modes=[c, d], H0=ec * Dagger(c) * c + ed * Dagger(d) * d, H1=Dagger(c) * d + Dagger(d) * c),
        "fermion_pair3": dict(modes=[c, d, e], H0=ec * Dagger(c) * c + ed * Dagger(d) * d + ee * Dagger(e) * e,
                              H1=(Dagger(c) * d + Dagger(d) * c) + (Dagger(d) * e + Dagger(e) * d) + (c * d + Dagger(d) * Dagger(c)) + (d * e + Dagger(e) * Dagger(d))),
        "fermion_interaction": dict(modes=[c, d], H0=ec * Dagger(c) * c + ed * Dagger(d) * d + al * Dagger(c) * c * Dagger(d) * d, H1=Dagger(c) * d + Dagger(d) * c + c * d + Dagger(d) * Dagger(c)),
        "holstein": dict(modes=[a, c], H0=w * Na + ec * Dagger(c) * c, H1=Dagger(c) * c * (a + Dagger(a)) + (a + Dagger(a))),
        "spin_fermion": dict(modes=[sm, c], H0=wq * pauli.SigmaZ("s") / 2 + ec * Dagger(c) * c, H1=sp * c + Dagger(c) * sm + (sm + sp) * (c + Dagger(c)) + (c + Dagger(c))),
        "spin_two_fermions": dict(modes=[sm, c, d], H0=wq * pauli.SigmaZ("s") / 2 + ec * Dagger(c) * c + ed * Dagger(d) * d, H1=(sm + sp) * (Dagger(c) * d + Dagger(d) * c) + sp * c * d + Dagger(d) * Dagger(c) * sm),
        "boson_ladder": dict(modes=[a, l], H0=w * Na + wb * NumberOperator(l), H1=Dagger(a) * l + Dagger(l) * a + (a + Dagger(a)) * (l + Dagger(l))),
        "floquet_2x2": dict(modes=[l], H0=sympy.Matrix([[w * NumberOperator(l), 0], [0, w * NumberOperator(l) + D]]), H1=sympy.Matrix([[0, l + Dagger(l)], [l + Dagger(l), l + Dagger(l)]]), blocks=[0, 1]),
        "two_spins": dict(modes=[sm, pauli.SigmaMinus("t")], H0=wq * pauli.SigmaZ("s") / 2 + w * pauli.SigmaZ("t") / 2,
                          H1=pauli.SigmaX("s") * pauli.SigmaX("t") + pauli.SigmaX("s") + pauli.SigmaY("t")),
        "jc_mask_counter_rotating": dict(modes=[a, sm], H0=w * Na + wq * pauli.SigmaZ("s") / 2, H1=(a + Dagger(a)) * (sm + sp), fd=a * sm + Dagger(a) * sp),
        "two_bosons_mask": dict(modes=[a, b], H0=w * Na + wb * Nb, H1=(a + Dagger(a)) * (b + Dagger(b)), fd=a * b + Dagger(a) * Dagger(b)),
        # complex (Gaussian-number) couplings
        "boson_complex_drive": dict(modes=[a], H0=w * Na + al * Na * Na, H1=(1 + 2 * sympy.I) * a + (1 - 2 * sympy.I) * Dagger(a) + sympy.I * (a * a - Dagger(a) * Dagger(a))),
        "boson_complex_harmonic": dict(modes=[a], H0=w * Na, H1=(1 + 2 * sympy.I) * a + (1 - 2 * sympy.I) * Dagger(a) + sympy.I * (a * a - Dagger(a) * Dagger(a))),
        "fermion_complex_hop": dict(modes=[c, d], H0=ec * Dagger(c) * c + ed * Dagger(d) * d, H1=(1 + sympy.I) * Dagger(c) * d + (1 - sympy.I) * Dagger(d) * c + sympy.I * (c * d - Dagger(d) * Dagger(c))),
        "rabi_y": dict(modes=[a, sm], H0=w * Na + wq * pauli.SigmaZ("s") / 2, H1=sympy.I * (Dagger(a) - a) * pauli.SigmaY("s") + (a + Dagger(a)) * pauli.SigmaX("s") + pauli.SigmaY("s")),
        "matrix_complex": dict(modes=[a], H0=sympy.Matrix([[w * Na, 0], [0, w * Na + D]]), H1=sympy.Matrix([[a + Dagger(a), (1 + sympy.I) * a + Dagger(a)], [(1 - sympy.I) * Dagger(a) + a, sympy.I * (a - Dagger(a))]]), blocks=[0, 1]),
        "spin_boson_fermion": dict(modes=[a, sm, c], H0=w * Na + wq * pauli.SigmaZ("s") / 2 + ec * Dagger(c) * c, H1=(a + Dagger(a)) * pauli.SigmaX("s") + Dagger(c) * c * pauli.SigmaY("s") + (c + Dagger(c)) * (a + Dagger(a))),
        "ladder_drive": dict(modes=[l, sm], H0=w * NumberOperator(l) + wq * pauli.SigmaZ("s") / 2, H1=(l + Dagger(l)) * (sm + sp)),
        # selective elimination: only the two-photon terms are eliminated, one-photon terms are kept
        "mask_two_photon": dict(modes=[a], H0=w * Na, H1=(a + Dagger(a)) + (a * a + Dagger(a) * Dagger(a)), fd=a**2 + Dagger(a) ** 2),
        "mask_one_photon": dict(modes=[a], H0=w * Na + al * Na * Na, H1=(a + Dagger(a)) ** 3, fd=a + Dagger(a) + a**3 + Dagger(a) ** 3),
        # matrix-valued: two-level system coupled to a boson, given as 2x2 matrix with two blocks
        "matrix_2x2": dict(modes=[a], H0=sympy.Matrix([[w * Na, 0], [0, w * Na + D]]), H1=sympy.Matrix([[a + Dagger(a), a + Dagger(a)], [a + Dagger(a), 0]]), blocks=[0, 1]),
        # unequal block sizes (non-square off-diagonal blocks), smaller block first and last
        "matrix_3x3_12": dict(modes=[a], H0=sympy.Matrix([[w * Na, 0, 0], [0, w * Na + D, 0], [0, 0, w * Na + al]]),
                              H1=sympy.Matrix([[0, a + Dagger(a), a], [a + Dagger(a), 0, Dagger(a) + a], [Dagger(a), a + Dagger(a), a + Dagger(a)]]), blocks=[0, 1, 1]),
        "matrix_3x3_21": dict(modes=[a], H0=sympy.Matrix([[w * Na, 0, 0], [0, w * Na + D, 0], [0, 0, w * Na + al]]),
                              H1=sympy.Matrix([[0, a + Dagger(a), a], [a + Dagger(a), 0, Dagger(a) + a], [Dagger(a), a + Dagger(a), a + Dagger(a)]]), blocks=[0, 0, 1]),
        # an exactly vanishing diagonal block of H_0 (gapped against the other block), first and last
        "matrix_zero_block_first": dict(modes=[a], H0=sympy.Matrix([[0, 0], [0, D + al * Na]]), H1=sympy.Matrix([[0, a], [Dagger(a), a + Dagger(a)]]), blocks=[0, 1]),
        "matrix_zero_block_last": dict(modes=[a], H0=sympy.Matrix([[D + al * Na, 0, 0], [0, D + w * Na, 0], [0, 0, 0]]),
                                       H1=sympy.Matrix([[0, 1, Dagger(a)], [1, 0, a + Dagger(a)], [a, a + Dagger(a), 0]]), blocks=[0, 0, 1]),
        # non-Hermitian operator Hamiltonians (hermitian=False): U_inv U = 1 and U_inv H U = H_tilde, fully diagonalised blocks only
        "nonhermitian_drive": dict(modes=[a], H0=w * Na + al * Na * Na, H1=a / 2 + 3 * Dagger(a) / 2 + a * a, nonhermitian=True),
        "nonhermitian_jc": dict(modes=[a], H0=sympy.Matrix([[w * Na, 0], [0, w * Na + D]]), H1=sympy.Matrix([[0, 2 * a], [Dagger(a), a]]), nonhermitian=True),
        "nonhermitian_fermions": dict(modes=[c, d], H0=ec * Dagger(c) * c + ed * Dagger(d) * d, H1=2 * Dagger(c) * d + Dagger(d) * c + 3 * c * d, nonhermitian=True),
        # a mode that occurs in the perturbation only (its number operator is absent from H_0)
        "spectator_boson": dict(modes=[a, b], H0=w * Na, H1=(a + Dagger(a)) * Dagger(b) ** 2 * b**2 + (a + Dagger(a)) * Nb),
        "spectator_fermion": dict(modes=[a, c], H0=w * Na + al * Na * Na, H1=(a + Dagger(a)) * Dagger(c) * c + a * a + Dagger(a) * Dagger(a)),
        "resonant_drives": dict(modes=[a, b], H0=w * Na + w * Nb, H1=a + Dagger(a) + b + Dagger(b)),
        # Hermitian Hamiltonians whose coefficients are non-polynomial functions of number operators (parity, square root)
        "parity_coupling": dict(modes=[a, c], H0=w * Na + ec * Dagger(c) * c, H1=(-1) ** NumberOperator(c) * (a + Dagger(a)), matrix_compare=False, as_expression=True),
        "zero_block_2x2_fd": dict(modes=[a], H0=sympy.Matrix([[0, 0, 0], [0, 0, 0], [0, 0, w * Na + D]]),
                                  H1=sympy.Matrix([[0, 1, a], [1, 0, sympy.I], [Dagger(a), -sympy.I, 0]]), blocks=[0, 0, 1], fd_blocks=(0,)),
        "spectator_in_matrix": dict(modes=[a, b], H0=sympy.Matrix([[w * Na, 0], [0, w * Na + D]]), H1=sympy.Matrix([[0, b], [Dagger(b), 0]]), blocks=[0, 1]),
        "matrix_immutable": dict(modes=[a], H0=sympy.ImmutableMatrix([[w * Na, 0], [0, w * Na + D]]), H1=sympy.ImmutableMatrix([[0, a], [Dagger(a), a + Dagger(a)]]), blocks=[0, 1]),
        # numeric anharmonic spectra: energy denominators with poles at occupations whose partner level is unphysical (n - 1 < 0)
        "kerr_numeric_boundary": dict(modes=[a], H0=Na * (Na + 1) / 2, H1=a + Dagger(a), boundary=True),
        "square_numeric_boundary": dict(modes=[a], H0=Na * Na, H1=a * a + Dagger(a) * Dagger(a), boundary=True),
        "displaced_no_symbols": dict(modes=[a], H0=Na, H1=a + Dagger(a), no_symbols=True),
        "spin_no_symbols": dict(modes=[sm], H0=pauli.SigmaZ("s"), H1=pauli.SigmaX("s"), no_symbols=True),
        "matrix_no_symbols": dict(modes=[a], H0=sympy.Matrix([[Na, 0], [0, Na + sympy.Rational(5, 2)]]), H1=sympy.Matrix([[0, a], [Dagger(a), a + Dagger(a)]]), blocks=[0, 1], no_symbols=True),
        "spin_y_numeric": dict(modes=[sm], H0=pauli.SigmaZ("s"), H1=pauli.SigmaY("s")),
        "boson_spin_numeric": dict(modes=[a, sm], H0=Na + sympy.Rational(5, 6) * pauli.SigmaZ("s"), H1=sympy.I * (a - Dagger(a)) + pauli.SigmaX("s")),
        "spin_y_only": dict(modes=[sm], H0=wq * pauli.SigmaZ("s"), H1=pauli.SigmaY("s")),
        "matrix_1block": dict(modes=[a], H0=sympy.Matrix([[w * Na, 0], [0, w * Na + D]]), H1=sympy.Matrix([[0, a], [Dagger(a), a + Dagger(a)]])),
    }
    if name.startswith(("random:", "randomfree:")):
        return _random_model(int(name.split(":")[1]), dict(a=a, b=b, c=c, d=d, e=e, sm=sm, l=l), interaction=name.startswith("random:"))
    return M[name]


def _random_model(seed, ops, interaction=True):
    """Seeded random polynomial perturbation W + W^dagger in 1-3 modes of mixed statistics over a generic number-conserving H_0
    (symbolic level spacings, optionally a density-density interaction).  The enumerated part of the thorough C07 claim."""
    import random

    from pymablock.number_ordered_form import NumberOperator

    rng = random.Random(seed)
    st = pauli.SigmaMinus("t")
    pools = [["a"], ["a", "b"], ["a", "c"], ["c", "d"], ["a", "sm"], ["sm", "c"], ["c", "d", "e"], ["l", "c"], ["sm", "st"], ["l", "sm"], ["a", "c", "sm"]]
    names = rng.choice(pools)
    ops = dict(ops, st=st)
    modes = [ops[n] for n in names]

    def number(x):
        if isinstance(x, pauli.SigmaMinus):
            return pauli.SigmaZ(x.name) / 2
        if isinstance(x, (BosonOp, FermionOp)):
            return Dagger(x) * x
        return NumberOperator(x)

    freqs = sympy.symbols(" ".join(f"w_{n}" for n in names) + " ", real=True)
    freqs = freqs if isinstance(freqs, (tuple, list)) else [freqs]
    H0 = sum(f * number(x) for f, x in zip(freqs, modes))
    if not interaction:
        # third order with occupation-dependent denominators and complex couplings takes the library itself > 5 min (probe)
        pass
    elif len(modes) >= 2 and rng.random() < 0.4:
        H0 = H0 + sympy.Symbol("alpha", real=True) * number(modes[0]) * number(modes[1])
    elif isinstance(modes[0], BosonOp) and rng.random() < 0.4:
        H0 = H0 + sympy.Symbol("alpha", real=True) * number(modes[0]) ** 2
    letters = []
    for x in modes:
        letters += [x, Dagger(x)]
    coefs = [1, 2, sympy.Rational(1, 2), sympy.I, 1 + sympy.I, sympy.Rational(-3, 2)]
    H1 = 0
    maxlen = 2 if len(modes) >= 2 else 3
    for _ in range(rng.choice([1, 2, 2, 3])):
        W = sympy.S.One
        for _ in range(rng.randint(1, maxlen)):
            W = W * rng.choice(letters)
        cf = rng.choice(coefs)
        H1 = H1 + cf * W + sympy.conjugate(cf) * Dagger(W)
    H1 = sympy.expand(H1)
    if H1 == 0:
        H1 = letters[0] + letters[1]
    return dict(modes=modes, H0=H0, H1=H1)


def _run_library(m, max_order):
    from pymablock import block_diagonalize
    from pymablock.series import one, zero

    g = sympy.Symbol("g", real=True)
    H0, H1 = m["H0"], m["H1"]
    kw = {}
    if m.get("blocks") is not None:
        kw["subspace_indices"] = m["blocks"]
    if m.get("fd") is not None:
        kw["fully_diagonalize"] = {0: m["fd"]} if m.get("blocks") is not None else m["fd"]
    if m.get("fd_blocks") is not None:
        kw["fully_diagonalize"] = tuple(m["fd_blocks"])
    if m.get("nonhermitian"):
        kw["hermitian"] = False
    if m.get("as_expression"):
        Ht, U, Ud = block_diagonalize(H0 + g * H1, symbols=[g], **kw)
        return Ht, U, Ud
    if m.get("no_symbols"):
        # a single expression / matrix without the `symbols` argument: the only free symbol that is not an operator label is g
        Ht, U, Ud = block_diagonalize(H0 + g * H1, **kw)
        return Ht, U, Ud
    Ht, U, Ud = block_diagonalize({sympy.S.One: H0, g: H1}, symbols=[g], **kw)
    return Ht, U, Ud


def _as_matrix(x, dim):
    """Library element -> (dim x dim) nested list of expressions / 0 (block structure flattened by the caller)."""
    return x


class OpMat:
    """Matrix of operator expressions acting on (block index, Fock state): state = list over rows of Fock states."""

    def __init__(self, F, dim):
        self.F, self.dim = F, dim

    def apply(self, Mx, vec):
        """Mx: dim x dim nested list of sympy expressions (0 for absent); vec: list of states."""
        out = [dict() for _ in range(self.dim)]
        for i in range(self.dim):
            for j in range(self.dim):
                e = Mx[i][j]
                if e == 0 or not vec[j]:
                    continue
                for s, c in self.F.act(e, vec[j]).items():
                    self.F._add(out[i], s, c)
        return out

    @staticmethod
    def add(a, b, F, sign=1):
        out = [dict(x) for x in a]
        for i, st in enumerate(b):
            for s, c in st.items():
                F._add(out[i], s, c if sign == 1 else -c)
        return out


def _elements(S, order, layout, scalar):
    """Full operator matrix (nested list) of a returned series at one order. layout: list of block dims."""
    from pymablock.series import one, zero

    nb = len(layout)
    N = sum(layout)
    off = np.cumsum([0] + layout)
    M = [[0] * N for _ in range(N)]
    for i in range(nb):
        for j in range(nb):
            v = S[(i, j, order)]
            if v is zero:
                continue
            if v is one:
                for k in range(layout[i]):
                    M[off[i] + k][off[j] + k] = sympy.S.One
                continue
            if scalar or not isinstance(v, sympy.MatrixBase):
                M[off[i]][off[j]] = v
            else:
                for r in range(v.shape[0]):
                    for c in range(v.shape[1]):
                        M[off[i] + r][off[j] + c] = v[r, c]
    return M


def _input_matrix(x, layout_total):
    if isinstance(x, sympy.MatrixBase):
        return [[x[i, j] for j in range(x.shape[1])] for i in range(x.shape[0])]
    return [[x]]


def _expr_of(v):
    return v.as_expr() if hasattr(v, "as_expr") and not isinstance(v, sympy.MatrixBase) else v


def c07(cfg):
    from pymablock.number_ordered_form import NumberOrderedForm
    from pymablock.series import one, zero

    rec = Rec("C07", cfg)
    m = models(cfg["model"])
    modes = m["modes"]
    max_order = cfg["max_order"]
    sig = f"model={cfg['model']}"
    try:
        Ht, U, Ud = _run_library(m, max_order)
        scalar = not isinstance(m["H0"], sympy.MatrixBase)
        if scalar:
            layout = [1]
        elif m.get("blocks") is not None:
            layout = [m["blocks"].count(b) for b in sorted(set(m["blocks"]))]
        else:
            layout = [m["H0"].shape[0]]
        N = sum(layout)
        lib = {name: [_elements(S, n, layout, scalar) for n in range(max_order + 1)] for name, S in (("Ht", Ht), ("U", U), ("Ud", Ud))}
        if m.get("no_symbols") or m.get("as_expression"):
            # expression input: every returned element carries its monomial g**n; set g = 1 (public substitution)
            gsym = sympy.Symbol("g", real=True)
            lib = {name: [[[0 if x == 0 else _expr_of(x).subs(gsym, 1) for x in row] for row in M] for M in mats] for name, mats in lib.items()}
    except Exception as e:
        from .herm import library_exception_info

        is_lib, where = library_exception_info(e, pure_inputs=True)
        if not is_lib:
            raise
        rec.direct_violation("library raised on a well-posed second-quantised input", sig + f":raised-{type(e).__name__}",
                             {"exception": f"{type(e).__name__}: {e}"[:400], "where": where})
        rec.sample = {"config": cfg}
        return rec
    Hin = {0: _input_matrix(m["H0"], N), 1: _input_matrix(m["H1"], N)}
    cases = list(fock.binary_cases(modes))
    kept_shift_ok = _kept_predicate(m, modes)

    all_clauses = {}  # obligation name -> clauses over all binary cases and basis components

    def addc(name, cl):
        all_clauses.setdefault(name, []).extend(cl)

    if m.get("boundary"):
        # boundary occupations (vacuum, one quantum) of the boson modes: the returned operators must be defined there.  The identities
        # below are identities of rational functions of the occupation and say nothing about an occupation at which a coefficient has a pole.
        bos = [k for k, md in enumerate(modes) if fock.kind_of(md) == "boson"]
        singular = None
        for occ in (0, 1):
            for b in fock.binary_cases(modes):
                Fb = fock.Fock(modes, binary={**b, **{k: occ for k in bos}})
                OMb = OpMat(Fb, N)
                for col in range(N):
                    basis = [Fb.init() if r == col else {} for r in range(N)]
                    for name in ("Ht", "U", "Ud"):
                        for n in range(max_order + 1):
                            try:
                                OMb.apply(lib[name][n], basis)
                            except symc.SymbolicDivisionByZero as e:
                                singular = singular or dict(series=name, order=n, boson_occupation=occ, column=col, error=str(e)[:120])
        if singular:
            rec.direct_violation("library result is singular at a boundary occupation of a boson mode", sig + ":only-at-boundary-occupation", singular, reproduced=True)
        else:
            rec.discharged("library results are defined at the boson occupations 0 and 1", "confirmed")
    for b in cases:
        F = fock.Fock(modes, binary=b)
        OM = OpMat(F, N)
        for col in range(N):
            basis = [F.init() if r == col else {} for r in range(N)]
            # U_c |basis>, cached per order
            Uc = [OM.apply(lib["U"][n], basis) for n in range(max_order + 1)]
            for n in range(max_order + 1):
                # unitarity
                acc = [dict() for _ in range(N)]
                for k in range(n + 1):
                    acc = OM.add(acc, OM.apply(lib["Ud"][n - k], Uc[k]), F)
                ref = basis if n == 0 else [dict() for _ in range(N)]
                for r in range(N):
                    addc(f"UdU order={n}", F.diff_clauses(acc[r], ref[r]))
                # U^dagger H U
                acc = [dict() for _ in range(N)]
                for k in range(n + 1):
                    for hb in (0, 1):
                        if n - k - hb < 0:
                            continue
                        acc = OM.add(acc, OM.apply(lib["Ud"][n - k - hb], OM.apply(Hin[hb], Uc[k])), F)
                ht = OM.apply(lib["Ht"][n], basis)
                for r in range(N):
                    addc(f"UdHU==Ht order={n}", F.diff_clauses(acc[r], ht[r]))
                # adjoint pairing: Ud_n == Dagger(U_n) (word-reversed adjoint, taken by sympy on the public expression)
                Uadj = [[0] * N for _ in range(N)]
                for r in range(N):
                    for c_ in range(N):
                        x = lib["U"][n][c_][r]
                        Uadj[r][c_] = 0 if x == 0 else Dagger(_expr_of(x))
                ua = OM.apply(Uadj, basis)
                ud = OM.apply(lib["Ud"][n], basis)
                if m.get("nonhermitian"):
                    # similarity transform: U_inv is not the adjoint, and the gauge is on U - U_inv; only inverse, conjugation and elimination
                    if n >= 1:
                        for r in range(N):
                            for s_, cf in ht[r].items():
                                if not kept_shift_ok(r, col, s_):
                                    addc(f"Ht eliminated components order={n}", cf.nonzero_clauses())
                    continue
                for r in range(N):
                    addc(f"Ud==adjoint(U) order={n}", F.diff_clauses(ua[r], ud[r]))
                # elimination / gauge: H_tilde has only kept components, the anti-Hermitian part of U only eliminated ones
                if n >= 1:
                    for r in range(N):
                        for s, cf in ht[r].items():
                            if not kept_shift_ok(r, col, s):
                                addc(f"Ht eliminated components order={n}", cf.nonzero_clauses())
                        anti = dict(Uc[n][r])
                        for s, cf in ud[r].items():
                            F._add(anti, s, -cf)
                        for s, cf in anti.items():
                            if kept_shift_ok(r, col, s):
                                addc(f"gauge (U-Ud) kept components order={n}", cf.nonzero_clauses())

    for n in range(1, max_order + 1):
        all_clauses.setdefault(f"Ht eliminated components order={n}", [])
        all_clauses.setdefault(f"gauge (U-Ud) kept components order={n}", [])

    def make_replay(kind, n):
        def replay(model):
            return _numeric_identity(m, modes, lib, Hin, N, kind, n, model)

        return replay

    bad = set()
    for name in sorted(all_clauses, key=lambda s: (int(s.split("order=")[1]), s)):
        kind = name.split(" order=")[0]
        n = int(name.split("order=")[1])
        if kind in bad:
            continue
        v = rec.oblige_clauses(name, all_clauses[name], sig=sig + ":" + kind.replace(" ", "-"), replay=make_replay(kind, n))
        if v == "sat":
            bad.add(kind)
        if v != "structural" and n >= 1:
            rec.nontrivial = True
    from .. import solver

    rec.guard("assumptions_sat", solver.assumptions_sat() == "sat")
    # literal statement at a seeded parameter point: operator result vs numeric block diagonalisation of truncated matrices
    if cfg.get("matrix_compare", True) and m.get("fd") is None:
        ok, detail = _matrix_comparison(m, modes, lib, N, layout, max_order, seed=int(cfg.get("_seed", 0)))
        if ok is False:
            rec.direct_violation("operator result differs from matrix block diagonalisation on interior Fock states", sig + ":matrix-comparison", detail)
        elif ok is True:
            rec.discharged(f"matrix comparison at seeded point: {detail}", "confirmed")
    rec.sample = {"config": cfg, "binary_cases": len(cases), "n_symbolic_reals": len(symc.CTX.vars)}
    return rec


def _kept_predicate(m, modes):
    """kept(row, col, shift): is this operator component one that is KEPT (not selected for elimination)?"""
    blocks = m.get("blocks")
    fd = m.get("fd")
    if fd is not None:
        from pymablock.number_ordered_form import NumberOrderedForm

        mask_terms = [tuple(int(p) for p in t) for t in NumberOrderedForm.from_expr(fd, modes).terms]

        def kept(r, c, s):
            if blocks is not None and blocks[r] != blocks[c]:
                return False
            # a term with operator powers p (positive = annihilation) shifts occupations by -p
            return tuple(-x for x in s) not in mask_terms

        return kept
    if blocks is not None:
        return lambda r, c, s: blocks[r] == blocks[c]
    # single block, default full diagonalisation: kept = diagonal in the matrix index and number conserving
    return lambda r, c, s: r == c and not any(s)


def _param_values(model_or_seed, names):
    rng = np.random.default_rng(11)
    vals = {}
    for k, nme in enumerate(sorted(names)):
        vals[nme] = float(1.0 + 0.37 * (k + 1) + 0.11 * rng.random())
    return vals


def _numeric_identity(m, modes, lib, Hin, N, kind, n, model):
    """Replay an operator-identity counterexample in a truncated matrix representation at the model's parameters."""
    params = {k[2:]: float(v) for k, v in model.items() if k.startswith("p_")}
    rep = fock.MatrixRep(modes, cutoff=8 if len(modes) == 1 else 5, params=params)
    D = int(np.prod(rep.dims))

    def big(Mx):
        out = np.zeros((N * D, N * D), dtype=complex)
        for i in range(N):
            for j in range(N):
                if Mx[i][j] != 0:
                    out[i * D : (i + 1) * D, j * D : (j + 1) * D] = rep.matrix(_expr_of(Mx[i][j]))
        return out

    Un = [big(x) for x in lib["U"][: n + 1]]
    Udn = [big(x) for x in lib["Ud"][: n + 1]]
    Htn = [big(x) for x in lib["Ht"][: n + 1]]
    Hn = {0: big(Hin[0]), 1: big(Hin[1])}
    inside = np.tile(rep.interior(margin=min(rep.cut - 1, 4 * (n + 1))), N)
    if not inside.any():
        return True, {"note": "no interior states at this cutoff; symbolic counterexample kept", "kind": kind}
    if kind == "UdU":
        T = sum(Udn[n - k] @ Un[k] for k in range(n + 1)) - (np.eye(N * D) if n == 0 else 0)
    elif kind == "UdHU==Ht":
        T = sum(Udn[n - k - hb] @ Hn[hb] @ Un[k] for k in range(n + 1) for hb in (0, 1) if n - k - hb >= 0) - Htn[n]
    elif kind == "Ud==adjoint(U)":
        T = Udn[n] - Un[n].conj().T
    else:
        return True, {"note": "structural (component-wise) obligation; symbolic counterexample kept", "kind": kind}
    err = float(np.max(np.abs(T[:, inside])))
    return err > TOL, {"kind": kind, "order": n, "max_abs_error": err, "params": params}


def _matrix_comparison(m, modes, lib, N, layout, max_order, seed):
    """Numeric block_diagonalize of truncated matrices vs matrix elements of the operator result (interior states)."""
    from pymablock import block_diagonalize
    from pymablock.series import one, zero

    names = sorted({str(s) for x in (m["H0"], m["H1"]) for s in sympy.sympify(x).free_symbols if str(s) != "g"})
    params = {nme: 1.0 + 0.6180339887 * (k + 1) + 0.01 * seed for k, nme in enumerate(names)}
    cutoff = 14 if len(modes) == 1 else (7 if len(modes) == 2 else 4)
    rep = fock.MatrixRep(modes, cutoff=cutoff, params=params)
    D = int(np.prod(rep.dims))
    Hin = {0: _input_matrix(m["H0"], N), 1: _input_matrix(m["H1"], N)}

    def big(Mx):
        out = np.zeros((N * D, N * D), dtype=complex)
        for i in range(N):
            for j in range(N):
                if Mx[i][j] != 0:
                    out[i * D : (i + 1) * D, j * D : (j + 1) * D] = rep.matrix(_expr_of(Mx[i][j]))
        return out

    H0n, H1n = big(Hin[0]), big(Hin[1])
    if not np.allclose(H0n, np.diag(np.diag(H0n))):
        return None, "H0 not diagonal in the Fock basis"
    ev = np.real(np.diag(H0n))
    blocks = m.get("blocks")
    if blocks is None:
        idx = np.zeros(N * D, dtype=int)
        kw = {}
    else:
        idx = np.repeat(np.array(blocks), D)
        kw = {}
    # coupled levels must be non-degenerate in the truncated problem (documented precondition)
    gaps = np.abs(ev.reshape(-1, 1) - ev.reshape(1, -1))
    coupled = (np.abs(H1n) > 1e-12) & (gaps < 1e-9) & ~np.eye(N * D, dtype=bool)
    if blocks is not None:
        coupled &= idx.reshape(-1, 1) != idx.reshape(1, -1)
    if coupled.any():
        return None, "degenerate coupled levels at the seeded point"
    import warnings

    with warnings.catch_warnings():
        warnings.simplefilter("ignore")
        if m.get("nonhermitian"):
            kw = dict(kw, hermitian=False)
        Ht, U, Ud = block_diagonalize([np.diag(ev), H1n], subspace_indices=idx, **kw)
        nb = int(idx.max()) + 1

        def dense(S, n):
            rows = []
            pos = [np.flatnonzero(idx == b) for b in range(nb)]
            out = np.zeros((N * D, N * D), dtype=complex)
            for i in range(nb):
                for j in range(nb):
                    v = S[(i, j, n)]
                    if v is zero:
                        continue
                    v = np.eye(len(pos[i])) if v is one else (v.toarray() if hasattr(v, "toarray") else np.asarray(v))
                    out[np.ix_(pos[i], pos[j])] = v
            return out

        worst = 0.0
        for n in range(1, max_order + 1):
            margin = min(cutoff - 1, 4 * n + 1)
            inside = np.tile(rep.interior(margin=margin), N)
            if not inside.any():
                continue
            for name, S in (("Ht", Ht), ("U", U)):
                A = dense(S, n)
                B = big(lib[name][n])
                err = float(np.max(np.abs((A - B)[np.ix_(inside, inside)])))
                scale = max(1.0, float(np.max(np.abs(A[np.ix_(inside, inside)]))))
                worst = max(worst, err / scale)
                if err > 1e-6 * scale:
                    Dm = np.abs(A - B) * np.outer(inside, inside)
                    r, c = (int(x) for x in np.unravel_index(int(np.argmax(Dm)), Dm.shape))
                    return False, {"series": name, "order": n, "max_abs_error": err, "params": params, "cutoff": cutoff, "basis_state_row": r % D, "basis_state_col": c % D,
                                   "matrix": complex(A[r, c]).real, "operator_result": complex(B[r, c]).real}
    return True, f"H_tilde and U agree with the truncated-matrix computation on interior states to order {max_order} (rel. err {worst:.1e}, cutoff {cutoff}, params {params})"


def configs(tier):
    cfgs = []
    quick = [("anharmonic3", 3), ("anharmonic4", 2), ("displaced", 3), ("kerr_drive", 2), ("two_bosons", 2), ("rabi", 3), ("jc_detuned", 2),
             ("fermion_hop2", 3), ("fermion_pair3", 2), ("fermion_interaction", 2), ("holstein", 2), ("ladder_drive", 2),
             ("mask_two_photon", 2), ("mask_one_photon", 2), ("matrix_2x2", 2), ("matrix_1block", 2),
             ("spin_fermion", 3), ("spin_two_fermions", 2), ("boson_ladder", 2), ("floquet_2x2", 2),
             ("two_spins", 3), ("jc_mask_counter_rotating", 2), ("two_bosons_mask", 2),
             ("boson_complex_drive", 2), ("fermion_complex_hop", 3), ("rabi_y", 2), ("matrix_complex", 2), ("spin_boson_fermion", 2),
             ("matrix_3x3_12", 2), ("matrix_3x3_21", 2), ("matrix_zero_block_first", 2), ("matrix_zero_block_last", 2),
             ("nonhermitian_drive", 2), ("nonhermitian_jc", 2), ("nonhermitian_fermions", 2),
             ("spectator_boson", 2), ("spectator_fermion", 2), ("resonant_drives", 3), ("spin_y_only", 3), ("spin_y_numeric", 3), ("boson_spin_numeric", 3),
             ("displaced_no_symbols", 3), ("spin_no_symbols", 3), ("matrix_no_symbols", 2),
             ("parity_coupling", 2), ("spectator_in_matrix", 2), ("matrix_immutable", 2),
             ("kerr_numeric_boundary", 2), ("square_numeric_boundary", 2)]
    thorough = [("anharmonic3", 4), ("anharmonic4", 3), ("displaced", 4), ("kerr_drive", 3), ("two_bosons", 3), ("rabi", 4), ("jc_detuned", 3),
                ("fermion_hop2", 4), ("fermion_pair3", 3), ("fermion_interaction", 3), ("holstein", 3), ("ladder_drive", 3),
                ("mask_two_photon", 3), ("mask_one_photon", 2), ("matrix_2x2", 3), ("matrix_1block", 3),
                ("spin_fermion", 4), ("spin_two_fermions", 3), ("boson_ladder", 3), ("floquet_2x2", 3),
                ("two_spins", 4), ("jc_mask_counter_rotating", 3), ("two_bosons_mask", 3),
                ("boson_complex_drive", 2), ("boson_complex_harmonic", 3), ("fermion_complex_hop", 4), ("rabi_y", 3), ("matrix_complex", 3), ("spin_boson_fermion", 2),  # three modes of mixed statistics: order 3 exceeds 1500 s (probe)
                ("matrix_3x3_12", 3), ("matrix_3x3_21", 3), ("matrix_zero_block_first", 3), ("matrix_zero_block_last", 2),
                ("nonhermitian_drive", 3), ("nonhermitian_jc", 3), ("nonhermitian_fermions", 3),
                ("spectator_boson", 3), ("spectator_fermion", 3), ("resonant_drives", 4), ("spin_y_only", 4), ("spin_y_numeric", 4), ("boson_spin_numeric", 3),
                ("displaced_no_symbols", 4), ("spin_no_symbols", 4), ("matrix_no_symbols", 3),
                ("parity_coupling", 3), ("spectator_in_matrix", 3), ("matrix_immutable", 3),
                ("kerr_numeric_boundary", 2), ("square_numeric_boundary", 2)]
    for name, mo in quick if tier == "quick" else thorough:
        cfgs.append(dict(model=name, max_order=mo, _timeout_s=300 if tier == "quick" else 1500))
    # seeded random polynomial models (fixed seeds per tier: the encoding is regenerated, the set is stated)
    for seed in range(12 if tier == "quick" else 60):
        cfgs.append(dict(model=f"random:{seed}", max_order=2, _timeout_s=300 if tier == "quick" else 900))
    if tier == "thorough":
        for seed in range(100, 140):
            cfgs.append(dict(model=f"randomfree:{seed}", max_order=3, _timeout_s=900))
    jobs = [("vf.props.secondq", "c07", c) for c in cfgs]
    jobs += [("vf.props.secondq", "c07_accepted", dict(which=wh, _job="accepted", _timeout_s=600)) for wh in ("wildcard_mask", "docs_elimination_rules", "generic_hermitian_operators")]
    return jobs


def c07_accepted(cfg):
    """Valid operator-valued inputs in forms the symbolic Fock evaluator cannot denote (wildcard powers in elimination rules, generic
    Hermitian operators): the library must accept them and return the value of an equivalent input written without the special form.
    Concrete comparison of expressions (number-ordered difference simplifies to zero), not a solver query."""
    from pymablock import block_diagonalize
    from pymablock.number_ordered_form import NumberOrderedForm

    rec = Rec("C07", cfg)
    which = cfg["which"]
    a, b = BosonOp("a"), BosonOp("b")
    w, wb, D, g = sympy.symbols("omega omega_b Delta g", positive=True)
    k, m_ = sympy.symbols("k m", integer=True, positive=True)
    n_ = sympy.Symbol("n", integer=True, nonnegative=True)
    Na, Nb = Dagger(a) * a, Dagger(b) * b
    sig = f"accepted:{which}"
    requests = [(0, (0, 0, 1)), (0, (0, 0, 2)), (1, (0, 0, 1)), (1, (0, 0, 2)), (2, (0, 0, 2))]  # the matrix is one block: its elements are 2x2 operator matrices

    def same(x, y):
        x, y = (sympy.Matrix([[v]]) if not isinstance(v, sympy.MatrixBase) else v for v in (sympy.sympify(x), sympy.sympify(y)))
        if x.shape != y.shape:
            return False
        for u, v in zip(x, y):
            diff = NumberOrderedForm.from_expr(sympy.sympify(u)) - NumberOrderedForm.from_expr(sympy.sympify(v))
            if any(sympy.simplify(c) != 0 for c in diff.terms.values()):
                return False
        return True

    try:
        if which in ("wildcard_mask", "docs_elimination_rules"):
            if which == "wildcard_mask":
                H0 = sympy.diag(w * Na + D, w * Na)
                Hp = sympy.Matrix([[0, a + a**2], [Dagger(a) + Dagger(a) ** 2, 0]])
                special = sympy.Matrix([[0, a**k], [Dagger(a) ** m_, 0]])  # the same rule written with two different wildcard symbols
                plain = sympy.Matrix([[0, a + a**2 + a**3 + a**4], [Dagger(a) + Dagger(a) ** 2 + Dagger(a) ** 3 + Dagger(a) ** 4, 0]])
            else:
                # the (symmetric) elimination rules of docs/source/second_quantization.md
                H0 = sympy.diag(w * Na + wb * Nb + D, w * Na + wb * Nb)
                Hp = sympy.Matrix([[a + Dagger(a), a**3 + a * (1 + Nb)], [Dagger(a) ** 3 + (1 + Nb) * Dagger(a), a**2 + Dagger(a) ** 2 + Nb]])
                special = sympy.Matrix([[0, a**3 + b**2], [Dagger(a) ** 3 + Dagger(b) ** 2, a ** (2 + n_) + Dagger(a) ** (2 + n_)]])
                plain = sympy.Matrix([[0, a**3 + b**2], [Dagger(a) ** 3 + Dagger(b) ** 2, sum((a**p + Dagger(a) ** p for p in range(2, 7)), sympy.S.Zero)]])
            out_s = block_diagonalize([H0, Hp], fully_diagonalize=special, symbols=[g])
            out_p = block_diagonalize([H0, Hp], fully_diagonalize=plain, symbols=[g])
            pairs = [(f"{NAMES_[wq]}{idx}", out_s[wq][idx], out_p[wq][idx]) for wq, idx in requests]
        elif which == "generic_hermitian_operators":
            from sympy.physics.quantum.operator import HermitianOperator

            A, B = HermitianOperator("A"), HermitianOperator("B")
            x = sympy.Symbol("x", real=True)
            H = sympy.diag(-1, 1) + x * sympy.Matrix([[A + B, A], [A, -B]])
            out = block_diagonalize(H, subspace_indices=[0, 1], symbols=[x])
            pairs = [("H_tilde(0,0,1)", out[0][0, 0, 1], sympy.Matrix([[x * (A + B)]])), ("H_tilde(0,0,2)", out[0][0, 0, 2], sympy.Matrix([[-(x**2) * A * A / 2]])),
                     ("H_tilde(1,1,2)", out[0][1, 1, 2], sympy.Matrix([[x**2 * A * A / 2]]))]
            same = lambda u, v: all(sympy.expand(p - q) == 0 for p, q in zip(sympy.Matrix(u), sympy.Matrix(v)))  # noqa: E731
        else:
            raise KeyError(which)
    except KeyError:
        raise
    except Exception as e:  # noqa: BLE001
        from .herm import library_exception_info

        rec.direct_violation("library rejected a valid operator-valued input", sig + f":raised-{type(e).__name__}",
                             {"exception": f"{type(e).__name__}: {e}"[:300], "where": library_exception_info(e, pure_inputs=True)[1]}, reproduced=True)
        return rec
    bad = [nm for nm, u, v in pairs if not same(u, v)]
    if bad:
        rec.direct_violation("result differs from the equivalent input written plainly", sig + ":value", {"elements": bad}, reproduced=True)
    else:
        rec.discharged(f"{which}: accepted; {len(pairs)} requested elements equal those of the equivalent plainly written input", "confirmed")
    rec.nontrivial = True
    rec.sample = {"config": cfg}
    return rec


NAMES_ = ("H_tilde", "U", "U_adjoint")


# ------------------------------------------------------------------------------------------------
# C16, second-quantised solver


def c16_2nd_quant(cfg):
    """solve_sylvester_2nd_quant: H0_i V - V H0_j = Y as an operator identity on the symbolic Fock state."""
    from pymablock.number_ordered_form import NumberOperator
    from pymablock.second_quantization import solve_sylvester_2nd_quant

    rec = Rec("C16", cfg)
    a, b = BosonOp("a"), BosonOp("b")
    c, d = FermionOp("c"), FermionOp("d")
    sm, sp = pauli.SigmaMinus("s"), pauli.SigmaPlus("s")
    w, wb, al, wq, ec, ed, D = sympy.symbols("omega omega_b alpha omega_q e_c e_d Delta", real=True)
    y = sympy.symbols("y0:8", real=True)
    Na, Nb = NumberOperator(a), NumberOperator(b)
    Nc, Nd = NumberOperator(c), NumberOperator(d)
    sets = {
        "boson_scalar": dict(modes=[a], eigs=[[w * Na + al * Na**2]], Y={(0, 0): [[y[0] * (a + Dagger(a)) + y[1] * (a**2 + Dagger(a) ** 2) + y[2] * (Dagger(a) * Na + Na * a)]]}),
        "boson_2x2": dict(modes=[a], eigs=[[w * Na, w * Na + D]],
                          Y={(0, 0): [[y[0] * (a + Dagger(a)), y[1] * a + y[2] * Dagger(a) + y[3] + y[4] * Na], [y[1] * Dagger(a) + y[2] * a + y[3] + y[4] * Na, y[5] * (a**2 + Dagger(a) ** 2)]]}),
        "boson_2blocks": dict(modes=[a, b], eigs=[[w * Na + wb * Nb], [w * Na + wb * Nb + D]],
                              Y={(0, 1): [[y[0] * a + y[1] * Dagger(a) * b + y[2] + y[3] * Na * Dagger(b)]], (1, 0): [[y[0] * Dagger(a) + y[1] * Dagger(b) * a + y[2] + y[3] * b * Na]]}),
        "spin_boson": dict(modes=[a, sm], eigs=[[w * Na + wq * pauli.SigmaZ("s") / 2]], Y={(0, 0): [[y[0] * (a * sp + Dagger(a) * sm) + y[1] * (a * sm + Dagger(a) * sp) + y[2] * (sm + sp)]]}),
        "fermions": dict(modes=[c, d], eigs=[[ec * Nc + ed * Nd + al * Nc * Nd]], Y={(0, 0): [[y[0] * (Dagger(c) * d + Dagger(d) * c) + y[1] * (c * d + Dagger(d) * Dagger(c)) + y[2] * (c + Dagger(c)) * Nd + y[2] * Nd * (c + Dagger(c))]]}),
        "fermion_boson": dict(modes=[a, c], eigs=[[w * Na + ec * Nc], [w * Na + ec * Nc + D]],
                              Y={(0, 1): [[y[0] * Dagger(c) * a + y[1] * c + y[2] * Nc * Dagger(a) + y[3]]], (0, 0): [[y[4] * (Dagger(c) * a + Dagger(a) * c)]]}),
    }
    # non-square off-diagonal blocks (1x2 and 2x1) between blocks of unequal size
    sets["boson_nonsquare"] = dict(modes=[a], eigs=[[w * Na], [w * Na + D, w * Na + al]],
                                   Y={(0, 1): [[y[0] * a + y[1] * Dagger(a) + y[2], y[3] * a + y[4] * Dagger(a) * Na + y[5]]],
                                      (1, 0): [[y[0] * Dagger(a) + y[1] * a + y[2]], [y[3] * Dagger(a) + y[4] * Na * a + y[5]]],
                                      (1, 1): [[y[0] * (a + Dagger(a)), y[1] * a + y[2]], [y[1] * Dagger(a) + y[2], y[3] * (a**2 + Dagger(a) ** 2)]]})
    # right-hand sides that are NOT Hermitian on a diagonal block (what the non-Hermitian algorithm hands to the solver)
    sets["boson_nonhermitian_rhs"] = dict(modes=[a], eigs=[[w * Na + al * Na**2]], nonhermitian=True,
                                          Y={(0, 0): [[y[0] * a + y[1] * Dagger(a) + y[2] * a**2 + y[3] * Dagger(a) * Na]]})
    sets["boson_2x2_nonhermitian_rhs"] = dict(modes=[a], eigs=[[w * Na, w * Na + D]], nonhermitian=True,
                                              Y={(0, 0): [[y[0] * a + y[1] * Dagger(a), y[2] * a + y[3]], [y[4] * Dagger(a) + y[5] * a + y[6], y[7] * a**2]]})
    from pymablock.number_ordered_form import LadderOp

    l = LadderOp("l")
    Nl = NumberOperator(l)
    sets["ladder"] = dict(modes=[l], eigs=[[w * Nl, w * Nl + D]],
                          Y={(0, 0): [[y[0] * (l + Dagger(l)), y[1] * l + y[2] * Dagger(l) + y[3]], [y[1] * Dagger(l) + y[2] * l + y[3], y[4] * (l**2 + Dagger(l) ** 2)]]})
    sets["boson_ladder"] = dict(modes=[a, l], eigs=[[w * Na + wb * Nl + al * Na * Nl]],
                                Y={(0, 0): [[y[0] * (Dagger(a) * l + Dagger(l) * a) + y[1] * (a * l + Dagger(l) * Dagger(a)) + y[2] * (l + Dagger(l)) * Na + y[2] * Na * (l + Dagger(l))]]})
    sets["spin_fermion"] = dict(modes=[sm, c], eigs=[[wq * pauli.SigmaZ("s") / 2 + ec * Nc]],
                                Y={(0, 0): [[y[0] * (sp * c + Dagger(c) * sm) + y[1] * (sm * c + Dagger(c) * sp) + y[2] * (c + Dagger(c))]]})
    m = sets[cfg["set"]]
    modes = m["modes"]
    import inspect

    if m.get("nonhermitian") and "hermitian" in inspect.signature(solve_sylvester_2nd_quant).parameters:
        solve = solve_sylvester_2nd_quant(tuple(m["eigs"]), hermitian=False)
    else:
        solve = solve_sylvester_2nd_quant(tuple(m["eigs"]))
    sig = f"2nd_quant:{cfg['set']}"
    clauses = {}
    for (i, j), Y in m["Y"].items():
        Ym = sympy.Matrix(Y)
        try:
            V = solve(Ym, (i, j, 1))
        except Exception as e:  # noqa: BLE001
            from .herm import library_exception_info

            is_lib, where = library_exception_info(e, pure_inputs=True)
            if not is_lib:
                raise
            rec.direct_violation(f"solver raised on block ({i},{j})", sig + f":raised-{type(e).__name__}", {"exception": f"{type(e).__name__}: {e}"[:300], "where": where, "block": [i, j]}, reproduced=True)
            continue
        if tuple(V.shape) != tuple(Ym.shape):
            rec.direct_violation(f"solution of block ({i},{j}) has shape {tuple(V.shape)} != {tuple(Ym.shape)}", sig + ":shape", {"block": [i, j]}, reproduced=True)
            continue
        Hi, Hj = m["eigs"][i], m["eigs"][j]
        for bcase in fock.binary_cases(modes):
            F = fock.Fock(modes, binary=bcase)
            st = F.init()
            for r in range(Ym.shape[0]):
                for cc in range(Ym.shape[1]):
                    v = V[r, cc]
                    ve = v.as_expr() if hasattr(v, "as_expr") else v
                    lhs = {}
                    if ve != 0:
                        for s_, cf in F.act(Hi[r], F.act(ve, st)).items():
                            F._add(lhs, s_, cf)
                        for s_, cf in F.act(ve, F.act(Hj[cc], st)).items():
                            F._add(lhs, s_, -cf)
                    rhs = F.act(Ym[r, cc], st) if Ym[r, cc] != 0 else {}
                    if i == j and r == cc:
                        rhs = {k: v_ for k, v_ in rhs.items() if any(k)}  # the number-conserving part cannot (and must not) be solved for
                    clauses.setdefault(f"residual block ({i},{j})", []).extend(F.diff_clauses(lhs, rhs))
    for name, cl in clauses.items():
        v = rec.oblige_clauses(name, cl, sig=sig, replay=lambda model: (True, {"note": "operator identity violated for the solver output (symbolic counterexample)", "model": {k: str(x) for k, x in model.items()}}))
        if v != "structural":
            rec.nontrivial = True
    from .. import solver

    rec.guard("assumptions_sat", solver.assumptions_sat() == "sat")
    rec.sample = {"config": cfg}
    return rec
