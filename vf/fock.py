"""FOCK: denotation of second-quantised operator expressions by their action on a Fock state with SYMBOLIC
occupation numbers (shares no code with pymablock).

bosons   : unnormalised (Bargmann) basis  a z^n = n z^(n-1),  a^+ z^n = z^(n+1),  N z^n = n z^n  (polynomial in n)
ladders  : shift operators on Z
spins    : hard-core mode, sigma_- lowers, N_s = (sigma_z + 1)/2
fermions : Jordan-Wigner in mode order with parities (1 - 2 n_j)
A state is {shift-vector: SymC coefficient}; binary occupations (fermions, spins) are concrete per case split,
boson / ladder occupations are symbolic reals (n >= 0 for bosons).
`MatrixRep` is the truncated numeric matrix representation used to replay counterexamples.
"""
from __future__ import annotations

import itertools
from fractions import Fraction

import numpy as np
import sympy
import z3
from sympy.physics.quantum import Dagger, pauli
from sympy.physics.quantum.boson import BosonOp
from sympy.physics.quantum.fermion import FermionOp

from . import symc
from .symc import SymC, lift


def _lib():
    from pymablock.number_ordered_form import LadderOp, NumberOperator, NumberOrderedForm

    return LadderOp, NumberOperator, NumberOrderedForm


def kind_of(op):
    LadderOp, _, _ = _lib()
    if isinstance(op, BosonOp):
        return "boson"
    if isinstance(op, LadderOp):
        return "ladder"
    if isinstance(op, FermionOp):
        return "fermion"
    if isinstance(op, pauli.SigmaOpBase):
        return "spin"
    raise TypeError(op)


class Fock:
    def __init__(self, modes, binary=None, prefix="n_"):
        """modes: annihilation-type generators (BosonOp, LadderOp, SigmaMinus, FermionOp); binary: {mode index: 0/1}."""
        self.modes = list(modes)
        self.kinds = [kind_of(m) for m in self.modes]
        self.binary = dict(binary or {})
        self.n = []
        for k, (m, kd) in enumerate(zip(self.modes, self.kinds)):
            if kd in ("fermion", "spin"):
                assert k in self.binary, "binary occupations are case-split concretely"
                self.n.append(SymC(symc._rv(Fraction(self.binary[k]))))
            elif k in self.binary:
                # a boson / ladder mode at a concrete (boundary) occupation, e.g. the vacuum
                self.n.append(SymC(symc._rv(Fraction(self.binary[k]))))
            else:
                v = symc.real(f"{prefix}{m.name}")
                self.n.append(SymC(v))
                if kd == "boson":
                    symc.assume(v >= 0)
        self.params = {}

    # -- lookup
    def idx(self, op):
        kd = kind_of(op)
        for k, (m, kk) in enumerate(zip(self.modes, self.kinds)):
            if kk == kd and str(m.name) == str(op.name):
                return k
        raise KeyError(f"mode {op} not in {self.modes}")

    def idx_number(self, numop):
        name, typ = str(numop.args[0]), str(numop.args[1])
        kd = {"BosonOp": "boson", "LadderOp": "ladder", "FermionOp": "fermion", "SigmaOpBase": "spin"}[typ]
        for k, (m, kk) in enumerate(zip(self.modes, self.kinds)):
            if kk == kd and str(m.name) == name:
                return k
        raise KeyError(numop)

    def init(self):
        return {(0,) * len(self.modes): SymC(symc.R1)}

    def occ(self, shift, k):
        return self.n[k] + shift[k] if shift[k] else self.n[k]

    @staticmethod
    def _add(out, s, c):
        cv = c.const_value()
        if cv is not None and cv == (0, 0):
            return
        out[s] = out[s] + c if s in out else c

    # -- primitive actions
    def lower(self, k, shift, c):
        kd = self.kinds[k]
        ns = tuple(s - 1 if i == k else s for i, s in enumerate(shift))
        if kd == "ladder":
            return ns, c
        o = self.occ(shift, k)
        if kd == "fermion":
            for j in range(k):
                if self.kinds[j] == "fermion":
                    c = c * (1 - 2 * self.occ(shift, j))
        return ns, c * o

    def raise_(self, k, shift, c):
        kd = self.kinds[k]
        ns = tuple(s + 1 if i == k else s for i, s in enumerate(shift))
        if kd in ("boson", "ladder"):
            return ns, c
        o = self.occ(shift, k)
        if kd == "fermion":
            for j in range(k):
                if self.kinds[j] == "fermion":
                    c = c * (1 - 2 * self.occ(shift, j))
        return ns, c * (1 - o)

    # -- scalars (functions of number operators and parameters)
    def param(self, e):
        v = self.params.get(e)
        if v is None:
            v = self.params[e] = SymC(symc.real(f"p_{e.name}"))
        return v

    def scalar(self, e, shift):
        _, NumberOperator, _ = _lib()
        if isinstance(e, NumberOperator):
            return self.occ(shift, self.idx_number(e))
        if isinstance(e, pauli.SigmaZ):
            return 2 * self.occ(shift, self.idx(pauli.SigmaMinus(e.name))) - 1
        if e.is_Symbol:
            if str(e).startswith("number_operator_placeholder_"):
                raise NotImplementedError("internal placeholder leaked into a public expression")
            return self.param(e)
        if e.is_Rational:
            return lift(Fraction(int(e.p), int(e.q)))
        if e is sympy.I:
            return SymC(symc.R0, symc.R1)
        if e.is_Add:
            r = self.scalar(e.args[0], shift)
            for x in e.args[1:]:
                r = r + self.scalar(x, shift)
            return r
        if e.is_Mul:
            r = SymC(symc.R1)
            for x in e.args:
                r = r * self.scalar(x, shift)
            return r
        if e.is_Pow and e.args[1].is_Integer:
            return self.scalar(e.args[0], shift) ** int(e.args[1])
        if e.is_Pow and e.args[0].is_Rational:
            # q ** f(N): only at concrete occupations, where the exponent is a concrete integer
            ex = self.scalar(e.args[1], shift).const_value()
            if ex is None or ex[1] != 0 or ex[0].denominator != 1:
                raise NotImplementedError(("scalar", "Pow with a non-constant exponent", str(e)[:80]))
            return lift(Fraction(int(e.args[0].p), int(e.args[0].q)) ** int(ex[0]))
        if isinstance(e, sympy.conjugate):
            return self.scalar(e.args[0], shift).conjugate()
        if isinstance(e, sympy.Abs):
            # only at concrete occupations (real constant argument)
            v = self.scalar(e.args[0], shift).const_value()
            if v is None or v[1] != 0:
                raise NotImplementedError(("scalar", "Abs of a non-constant", str(e)[:80]))
            return lift(abs(v[0]))
        raise NotImplementedError(("scalar", type(e).__name__, str(e)[:80]))

    @staticmethod
    def is_scalar(e):
        LadderOp, _, _ = _lib()
        return not e.has(BosonOp, FermionOp, LadderOp, pauli.SigmaMinus, pauli.SigmaPlus, pauli.SigmaX, pauli.SigmaY)

    # -- action of an expression tree
    def act(self, e, state):
        LadderOp, _, NumberOrderedForm = _lib()
        e = sympy.sympify(e)
        if isinstance(e, NumberOrderedForm):
            e = e.as_expr()  # public conversion only
        if self.is_scalar(e):
            out = {}
            for s, c in state.items():
                self._add(out, s, c * self.scalar(e, s))
            return out
        if e.is_Add:
            out = {}
            for x in e.args:
                for s, c in self.act(x, state).items():
                    self._add(out, s, c)
            return out
        if e.is_Mul:
            for x in reversed(e.args):
                state = self.act(x, state)
            return state
        if e.is_Pow and e.args[1].is_Integer and e.args[1] > 0:
            for _ in range(int(e.args[1])):
                state = self.act(e.args[0], state)
            return state
        if isinstance(e, (BosonOp, FermionOp, LadderOp, pauli.SigmaMinus, pauli.SigmaPlus)):
            if isinstance(e, pauli.SigmaPlus):
                k, f = self.idx(pauli.SigmaMinus(e.name)), self.raise_
            elif isinstance(e, pauli.SigmaMinus):
                k, f = self.idx(e), self.lower
            else:
                k = self.idx(e)
                f = self.lower if e.is_annihilation else self.raise_
            out = {}
            for s, c in state.items():
                ns, nc = f(k, s, c)
                self._add(out, ns, nc)
            return out
        if isinstance(e, pauli.SigmaX):
            return self.act(pauli.SigmaMinus(e.name) + pauli.SigmaPlus(e.name), state)
        if isinstance(e, pauli.SigmaY):
            return self.act(sympy.I * pauli.SigmaMinus(e.name) - sympy.I * pauli.SigmaPlus(e.name), state)
        raise NotImplementedError(("act", type(e).__name__, str(e)[:80]))

    def valid_shift(self, s):
        """Binary modes: occupation after the shift must stay in {0,1} (other components have coefficient 0)."""
        for k, kd in enumerate(self.kinds):
            if kd in ("fermion", "spin") and not (0 <= self.binary[k] + s[k] <= 1):
                return False
        return True

    def diff_clauses(self, s1, s2):
        cl = []
        for k in set(s1) | set(s2):
            a, b = s1.get(k), s2.get(k)
            d = a if b is None else (-b if a is None else a - b)
            cl += d.nonzero_clauses()
        return cl


def binary_cases(modes):
    """All occupation assignments of the binary (fermion / spin) modes."""
    idx = [k for k, m in enumerate(modes) if kind_of(m) in ("fermion", "spin")]
    for bits in itertools.product((0, 1), repeat=len(idx)):
        yield dict(zip(idx, bits))


# ------------------------------------------------------------------------------------------------
# numeric matrix representation (replay)


class MatrixRep:
    def __init__(self, modes, cutoff=8, params=None):
        self.modes = list(modes)
        self.kinds = [kind_of(m) for m in self.modes]
        self.cut = cutoff
        self.dims = [cutoff if kd == "boson" else (2 * cutoff + 1 if kd == "ladder" else 2) for kd in self.kinds]
        self.params = params or {}

    def _embed(self, k, M, parity=False):
        mats = []
        for j, d in enumerate(self.dims):
            if j == k:
                mats.append(M)
            elif parity and j < k and self.kinds[j] == "fermion":
                mats.append(np.diag([1.0, -1.0]))
            else:
                mats.append(np.eye(d))
        out = mats[0]
        for m in mats[1:]:
            out = np.kron(out, m)
        return out

    def lower(self, k):
        kd, d = self.kinds[k], self.dims[k]
        if kd == "boson":
            M = np.diag(np.sqrt(np.arange(1, d)), 1)
        elif kd == "ladder":
            M = np.diag(np.ones(d - 1), 1)
        else:
            M = np.array([[0.0, 1.0], [0.0, 0.0]])  # |0><1|
        return self._embed(k, M, parity=(kd == "fermion"))

    def number(self, k):
        kd, d = self.kinds[k], self.dims[k]
        if kd == "boson":
            M = np.diag(np.arange(d, dtype=float))
        elif kd == "ladder":
            M = np.diag(np.arange(-self.cut, self.cut + 1, dtype=float))
        else:
            M = np.diag([0.0, 1.0])
        return self._embed(k, M)

    def idx(self, op):
        kd = kind_of(op)
        for k, (m, kk) in enumerate(zip(self.modes, self.kinds)):
            if kk == kd and str(m.name) == str(op.name):
                return k
        raise KeyError(op)

    def matrix(self, e):
        LadderOp, NumberOperator, NumberOrderedForm = _lib()
        e = sympy.sympify(e)
        D = int(np.prod(self.dims))
        if isinstance(e, NumberOrderedForm):
            e = e.as_expr()
        if isinstance(e, NumberOperator):
            name, typ = str(e.args[0]), str(e.args[1])
            kd = {"BosonOp": "boson", "LadderOp": "ladder", "FermionOp": "fermion", "SigmaOpBase": "spin"}[typ]
            k = next(i for i, (m, kk) in enumerate(zip(self.modes, self.kinds)) if kk == kd and str(m.name) == name)
            return self.number(k).astype(complex)
        if isinstance(e, pauli.SigmaZ):
            return (2 * self.number(self.idx(pauli.SigmaMinus(e.name))) - np.eye(D)).astype(complex)
        if e.is_Symbol:
            return complex(self.params[str(e)]) * np.eye(D, dtype=complex)
        if e.is_number:
            return complex(e) * np.eye(D, dtype=complex)
        if e.is_Add:
            return sum(self.matrix(x) for x in e.args)
        if e.is_Mul:
            out = np.eye(D, dtype=complex)
            for x in e.args:
                out = out @ self.matrix(x)
            return out
        if isinstance(e, sympy.Abs):
            X = self.matrix(e.args[0])
            d = np.diag(X)
            assert np.allclose(X, np.diag(d)), "Abs of a non-diagonal operator"
            return np.diag(np.abs(d)).astype(complex)
        if e.is_Pow and e.args[0].is_Rational and not e.args[1].is_Integer:
            # q ** f(N): a function of number operators (diagonal in the occupation basis)
            X = self.matrix(e.args[1])
            d = np.diag(X)
            assert np.allclose(X, np.diag(d)) and np.allclose(d.imag, 0) and np.allclose(d.real, np.round(d.real)), "q ** (non-integer or non-diagonal exponent)"
            return np.diag(np.power(complex(float(e.args[0])), np.round(d.real).astype(int)))
        if e.is_Pow and e.args[1].is_Integer:
            M = self.matrix(e.args[0])
            p = int(e.args[1])
            if p < 0:
                # only functions of number operators are inverted: diagonal matrices
                d = np.diag(M)
                assert np.allclose(M, np.diag(d)), "negative power of a non-diagonal operator"
                with np.errstate(divide="ignore", invalid="ignore"):
                    M = np.diag(np.where(np.abs(d) > 1e-12, 1 / d, 0))
                p = -p
            return np.linalg.matrix_power(M, p)
        if isinstance(e, (BosonOp, FermionOp, LadderOp)):
            L = self.lower(self.idx(e))
            return (L if e.is_annihilation else L.conj().T).astype(complex)
        if isinstance(e, pauli.SigmaMinus):
            return self.lower(self.idx(e)).astype(complex)
        if isinstance(e, pauli.SigmaPlus):
            return self.lower(self.idx(pauli.SigmaMinus(e.name))).conj().T.astype(complex)
        if isinstance(e, pauli.SigmaX):
            L = self.lower(self.idx(pauli.SigmaMinus(e.name)))
            return (L + L.T).astype(complex)
        if isinstance(e, pauli.SigmaY):
            L = self.lower(self.idx(pauli.SigmaMinus(e.name)))
            return (1j * L - 1j * L.T).astype(complex)
        if isinstance(e, sympy.conjugate):
            return self.matrix(e.args[0]).conj()
        raise NotImplementedError(("matrix", type(e).__name__, str(e)[:80]))

    def interior(self, margin):
        """Boolean mask of basis states whose boson occupations are < cutoff - margin and ladder |m| <= cutoff - margin."""
        masks = []
        for kd, d in zip(self.kinds, self.dims):
            if kd == "boson":
                masks.append(np.arange(d) < d - margin)
            elif kd == "ladder":
                masks.append(np.abs(np.arange(-self.cut, self.cut + 1)) <= self.cut - margin)
            else:
                masks.append(np.ones(2, dtype=bool))
        out = masks[0]
        for m in masks[1:]:
            out = np.kron(out, m).astype(bool)
        return out
