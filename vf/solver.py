"""Solver layer: every obligation is `assumptions AND (some component differs)`; unsat = holds for all values."""
from __future__ import annotations

import time
from fractions import Fraction

import z3

from . import symc

SOFT_TIMEOUT_MS = 120_000


class Stats:
    """Per-job accounting, merged into the evidence by the runner."""

    def __init__(self):
        self.reset()

    def reset(self):
        self.queries = 0  # solver calls
        self.unsat = 0
        self.sat = 0
        self.unknown = 0
        self.structural = 0  # obligations whose difference was syntactically zero (no solver call needed)
        self.solver_s = 0.0
        self.cross = 0
        self.cross_agree = 0
        self.cross_disagree = 0
        self.cross_s = 0.0
        self.max_query_s = 0.0

    def asdict(self):
        return dict(self.__dict__)


STATS = Stats()


def _base_solver(timeout_ms):
    s = z3.Solver()
    s.set("timeout", timeout_ms)
    for t in symc.CTX.atoms.values():
        s.add(t != 0)
    for c in symc.CTX.assumptions:
        s.add(c)
    return s


def model_value(m, v):
    """z3 model value of Real v as Fraction (algebraic numbers are approximated to 1e-30)."""
    val = m.eval(v, model_completion=True)
    if z3.is_rational_value(val):
        return Fraction(val.numerator_as_long(), val.denominator_as_long())
    if z3.is_algebraic_value(val):
        a = val.approx(30)
        return Fraction(a.numerator_as_long(), a.denominator_as_long())
    raise ValueError(f"unexpected model value {val}")


def extract_model(m):
    return {name: model_value(m, v) for name, v in symc.CTX.vars.items()}


def assumptions_sat(timeout_ms=30_000):
    """Vacuity guard: the assumptions (atoms non-zero, side constraints) alone must be satisfiable."""
    s = _base_solver(timeout_ms)
    t = time.time()
    r = s.check()
    STATS.solver_s += time.time() - t
    return str(r)


def decide(clauses, timeout_ms=SOFT_TIMEOUT_MS, cross=False, want_smt2=False):
    """Decide  EXISTS inputs. assumptions AND OR(clauses).

    Returns (verdict, model_or_None, info) with verdict in {"unsat","sat","unknown","structural"}.
    """
    info = {}
    if not clauses:
        STATS.structural += 1
        return "structural", None, info
    s = _base_solver(timeout_ms)
    s.add(z3.Or(clauses) if len(clauses) > 1 else clauses[0])
    t = time.time()
    r = s.check()
    dt = time.time() - t
    STATS.queries += 1
    STATS.solver_s += dt
    STATS.max_query_s = max(STATS.max_query_s, dt)
    info["z3_s"] = round(dt, 4)
    verdict = str(r)
    model = None
    if r == z3.sat:
        STATS.sat += 1
        model = extract_model(s.model())
    elif r == z3.unsat:
        STATS.unsat += 1
    else:
        STATS.unknown += 1
        info["reason"] = s.reason_unknown()
    if cross or want_smt2:
        smt2 = "(set-logic QF_NRA)\n" + s.to_smt2()
        if want_smt2:
            info["smt2"] = smt2
        if cross and verdict in ("sat", "unsat"):
            cv, cs = cvc5_decide(smt2)
            STATS.cross += 1
            STATS.cross_s += cs
            info["cvc5"] = cv
            info["cvc5_s"] = round(cs, 3)
            if cv == verdict:
                STATS.cross_agree += 1
            elif cv in ("sat", "unsat"):
                STATS.cross_disagree += 1
                verdict = "unknown"
                info["reason"] = f"z3 said {r}, cvc5 said {cv}"
                STATS.unknown += 1
    return verdict, model, info


def cvc5_decide(smt2: str, tlimit_ms=60_000):
    """Second opinion from cvc5 (Python API, same process; bounded by tlimit)."""
    import cvc5

    t = time.time()
    try:
        tm = cvc5.TermManager() if hasattr(cvc5, "TermManager") else None
        slv = cvc5.Solver(tm) if tm is not None else cvc5.Solver()
        slv.setOption("tlimit-per", str(tlimit_ms))
        parser = cvc5.InputParser(slv)
        parser.setStringInput(cvc5.InputLanguage.SMT_LIB_2_6, smt2, "q")
        sm = parser.getSymbolManager()
        out = "unknown"
        while True:
            cmd = parser.nextCommand()
            if cmd.isNull():
                break
            res = cmd.invoke(slv, sm)
            res = str(res).strip()
            if res in ("sat", "unsat", "unknown"):
                out = res
        return out, time.time() - t
    except Exception as e:  # cvc5 trouble is never a verdict
        return f"error:{type(e).__name__}:{e}"[:200], time.time() - t


def differs(A, B=None, **kw):
    return decide(symc.differs_clauses(A, B), **kw)
