"""Job runner: worker processes with hard wall-clock kills, result aggregation, evidence, exit codes.

A *job* is (module, function, config).  The function runs in a worker process, executes the real
pymablock code on symbolic values, discharges its obligations with the solver and returns a JSON-able
dict produced by `Rec.result()`.
"""
from __future__ import annotations

import hashlib
import importlib
import json
import multiprocessing as mp
import os
import resource
import sys
import time
import traceback
from pathlib import Path

VERIF = Path(__file__).resolve().parent.parent
REPO = Path(os.environ.get("VERIF_REPO", "/repo"))

EXIT_OK, EXIT_VIOLATION, EXIT_INCONCLUSIVE, EXIT_HARNESS = 0, 1, 2, 3

# ------------------------------------------------------------------------------------------------
# worker side


class FuncCoverage:
    """Which pymablock functions actually executed (sys.monitoring, PY_START, disabled after first hit)."""

    TOOL = 3

    def __init__(self):
        self.seen = set()
        self.active = False

    def start(self):
        mon = sys.monitoring
        try:
            mon.use_tool_id(self.TOOL, "vf")
        except ValueError:
            pass
        prefix = str(REPO / "pymablock")

        def cb(code, offset):
            fn = code.co_filename
            if fn.startswith(prefix):
                if "/tests/" not in fn and code.co_name != "<module>":
                    self.seen.add(f"{fn[len(prefix) + 1:]}:{code.co_qualname}")
            elif fn == "<string>" and code.co_name == "series_eval":
                self.seen.add("algorithm_parsing.py:<compiled series_eval>")
            return mon.DISABLE

        mon.register_callback(self.TOOL, mon.events.PY_START, cb)
        mon.set_events(self.TOOL, mon.events.PY_START)
        self.active = True

    def restart(self):
        if self.active:
            sys.monitoring.restart_events()
        self.seen = set()


COV = FuncCoverage()


class Rec:
    """Collects obligations / guards / counterexamples of one job."""

    def __init__(self, prop: str, config: dict):
        self.prop = prop
        self.config = config
        self.obligations = []
        self.guards = {}
        self.cex = []  # dicts: name, sig, model, reproduced, detail
        self.notes = []
        self.nontrivial = False
        self.sample = None
        self.error = None
        self._first_cross_done = False

    # -- obligations
    def oblige(self, name, A, B=None, sig=None, replay=None, cross=None):
        """Obligation `A == B` (entrywise, for all values). replay(model)->(bool, detail) confirms a sat."""
        from . import solver, symc

        clauses = symc.differs_clauses(A, B)
        return self.oblige_clauses(name, clauses, sig=sig, replay=replay, cross=cross)

    def oblige_clauses(self, name, clauses, sig=None, replay=None, cross=None):
        from . import solver

        if cross is None:
            cross = (not self._first_cross_done) and bool(clauses)
        verdict, model, info = solver.decide(clauses, cross=cross, want_smt2=False)
        if cross and clauses:
            self._first_cross_done = True
        ob = {"name": name, "verdict": verdict}
        ob.update({k: v for k, v in info.items() if k != "smt2"})
        self.obligations.append(ob)
        if verdict == "sat":
            entry = {
                "name": name,
                "sig": sig or name,
                "model": {k: str(v) for k, v in model.items()},
                "reproduced": None,
                "detail": None,
            }
            if replay is not None:
                try:
                    ok, detail = replay(model)
                    entry["reproduced"] = bool(ok)
                    entry["detail"] = detail
                except Exception as e:  # replay trouble = harness error, not a violation
                    entry["reproduced"] = False
                    entry["detail"] = {"replay_error": f"{type(e).__name__}: {e}", "tb": traceback.format_exc()[-1500:]}
            self.cex.append(entry)
        return verdict

    def direct_violation(self, name, sig, detail, reproduced=True):
        """A violation established by concrete execution of the real code (e.g. wrong exception behaviour)."""
        self.obligations.append({"name": name, "verdict": "sat"})
        self.cex.append({"name": name, "sig": sig, "model": {}, "reproduced": reproduced, "detail": detail})

    def discharged(self, name, verdict="unsat", **info):
        ob = {"name": name, "verdict": verdict}
        ob.update(info)
        self.obligations.append(ob)

    def guard(self, name, ok, detail=None):
        self.guards[name] = {"ok": bool(ok), "detail": detail}

    def guard_twin(self, name, A, B):
        """Reachability twin: a deliberately wrong oracle must be refuted (sat)."""
        from . import solver, symc

        clauses = symc.differs_clauses(A, B)
        if not clauses:
            self.guard(name, False, "twin structurally equal")
            return
        s = solver._base_solver(60_000)
        import z3

        s.add(z3.Or(clauses))
        t = time.time()
        r = str(s.check())
        solver.STATS.solver_s += time.time() - t
        self.guard(name, r == "sat", r)

    def note(self, msg):
        self.notes.append(str(msg))

    def result(self):
        from . import solver

        return {
            "prop": self.prop,
            "config": self.config,
            "obligations": self.obligations,
            "guards": self.guards,
            "cex": self.cex,
            "notes": self.notes,
            "nontrivial": self.nontrivial,
            "sample": self.sample,
            "stats": solver.STATS.asdict(),
            "functions": sorted(COV.seen),
            "error": self.error,
        }


def _worker_main(conn, mem_gb):
    try:
        lim = int(mem_gb * (1 << 30))
        resource.setrlimit(resource.RLIMIT_AS, (lim, lim))
    except Exception:
        pass
    sys.setrecursionlimit(20000)
    import warnings

    warnings.filterwarnings("ignore")
    try:
        COV.start()
    except Exception:
        pass
    while True:
        try:
            msg = conn.recv()
        except EOFError:
            return
        if msg is None:
            return
        jid, modname, funcname, config = msg
        t0 = time.time()
        try:
            from . import solver, symc

            symc.reset()
            solver.STATS.reset()
            COV.restart()
            mod = importlib.import_module(modname)
            res = getattr(mod, funcname)(config)
            if isinstance(res, Rec):
                res = res.result()
            res["wall_s"] = round(time.time() - t0, 3)
            conn.send((jid, "done", res))
        except MemoryError:
            conn.send((jid, "error", {"config": config, "error": "MemoryError", "wall_s": time.time() - t0}))
            return
        except BaseException as e:  # noqa: BLE001 - report everything to the parent
            conn.send(
                (
                    jid,
                    "error",
                    {
                        "config": config,
                        "error": f"{type(e).__name__}: {e}",
                        "tb": traceback.format_exc()[-3000:],
                        "wall_s": time.time() - t0,
                    },
                )
            )
            if isinstance(e, (KeyboardInterrupt, SystemExit)):
                return


# ------------------------------------------------------------------------------------------------
# parent side


class _Worker:
    def __init__(self, ctx, mem_gb):
        self.parent_conn, child = ctx.Pipe()
        self.proc = ctx.Process(target=_worker_main, args=(child, mem_gb), daemon=True)
        self.proc.start()
        child.close()
        self.job = None
        self.deadline = None

    def kill(self):
        try:
            self.proc.kill()
            self.proc.join(2)
        except Exception:
            pass
        try:
            self.parent_conn.close()
        except Exception:
            pass


def run_jobs(jobs, nproc=None, timeout_s=300, mem_gb=6, progress=True):
    """jobs: list of (module, func, config). Returns list of result dicts (same order)."""
    nproc = nproc or min(16, os.cpu_count() or 1)
    nproc = max(1, min(nproc, len(jobs)))
    ctx = mp.get_context("fork")
    results = [None] * len(jobs)
    pending = list(range(len(jobs)))[::-1]
    workers = [_Worker(ctx, mem_gb) for _ in range(nproc)]
    done = 0
    t_start = time.time()
    from multiprocessing.connection import wait

    def assign(w):
        if pending:
            jid = pending.pop()
            w.job = jid
            tmo = jobs[jid][2].get("_timeout_s", timeout_s) if isinstance(jobs[jid][2], dict) else timeout_s
            w.deadline = time.time() + tmo
            w.parent_conn.send((jid, jobs[jid][0], jobs[jid][1], jobs[jid][2]))
        else:
            w.job = None
            w.deadline = None

    for w in workers:
        assign(w)
    while any(w.job is not None for w in workers):
        busy = [w for w in workers if w.job is not None]
        ready = wait([w.parent_conn for w in busy], timeout=1.0)
        now = time.time()
        for i, w in enumerate(workers):
            if w.job is None:
                continue
            if w.parent_conn in ready:
                try:
                    jid, kind, res = w.parent_conn.recv()
                except (EOFError, ConnectionResetError, OSError):
                    jid = w.job
                    kind, res = "error", {"config": jobs[jid][2], "error": "worker died (killed / out of memory)"}
                    w.kill()
                    workers[i] = w = _Worker(ctx, mem_gb)
                    results[jid] = {"_kind": "died", **res}
                    done += 1
                    assign(w)
                    continue
                results[jid] = {"_kind": kind, **res}
                done += 1
                if progress and (done % 20 == 0 or done == len(jobs)):
                    print(f"  [{done}/{len(jobs)} jobs, {time.time() - t_start:.0f}s]", file=sys.stderr, flush=True)
                if kind == "error" and not w.proc.is_alive():
                    w.kill()
                    workers[i] = w = _Worker(ctx, mem_gb)
                assign(w)
            elif w.deadline is not None and now > w.deadline:
                jid = w.job
                w.kill()
                results[jid] = {
                    "_kind": "timeout",
                    "config": jobs[jid][2],
                    "error": f"hard wall-clock limit exceeded ({jobs[jid][2].get('_timeout_s', timeout_s)}s)",
                }
                done += 1
                workers[i] = w = _Worker(ctx, mem_gb)
                assign(w)
            elif not w.proc.is_alive() and not w.parent_conn.poll():
                jid = w.job
                w.kill()
                results[jid] = {"_kind": "died", "config": jobs[jid][2], "error": "worker died (killed / out of memory)"}
                done += 1
                workers[i] = w = _Worker(ctx, mem_gb)
                assign(w)
    for w in workers:
        try:
            w.parent_conn.send(None)
        except Exception:
            pass
        w.kill()
    return results


# ------------------------------------------------------------------------------------------------
# known findings


def load_known():
    p = VERIF / "known_findings.json"
    if not p.exists():
        return []
    return json.loads(p.read_text()).get("findings", [])


def known_match(prop, sig, known):
    import fnmatch

    for k in known:
        if k.get("property") != prop or k.get("status") != "known":
            continue
        if fnmatch.fnmatchcase(sig, k["signature"]):
            return k
    return None


# ------------------------------------------------------------------------------------------------
# aggregation


def _jsonable(x):
    try:
        json.dumps(x)
        return x
    except TypeError:
        return repr(x)


def finish(prop, tier, seed, results, *, level="other", technique, bounds, assumptions, functions_expected=(), t0=None,
           extra_coverage=None, write=True):
    """Aggregate job results, write evidence, print verdict lines, return exit code."""
    known = load_known()
    n_obl = n_dis = n_struct = n_sat = n_unk = 0
    solver_s = cross = cross_agree = cross_dis = 0
    cross_s = 0.0
    queries = 0
    functions = set()
    violations, known_hits, harness, inconclusive = [], [], [], []
    guard_fail = []
    samples = []
    nontrivial = set()
    for r in results:
        cfg = r.get("config")
        if r["_kind"] != "done":
            if r["_kind"] == "error" and "MemoryError" not in str(r.get("error")) and "out of memory" not in str(r.get("error")):
                harness.append({"config": cfg, "error": r.get("error"), "tb": r.get("tb")})
            else:
                inconclusive.append({"config": cfg, "reason": r.get("error")})
            continue
        if r.get("error"):
            harness.append({"config": cfg, "error": r["error"]})
        st = r["stats"]
        solver_s += st["solver_s"]
        queries += st["queries"]
        cross += st["cross"]
        cross_agree += st["cross_agree"]
        cross_dis += st["cross_disagree"]
        cross_s += st["cross_s"]
        functions.update(r.get("functions", []))
        for ob in r["obligations"]:
            n_obl += 1
            v = ob["verdict"]
            if v in ("unsat", "confirmed"):
                n_dis += 1
            elif v == "structural":
                n_dis += 1
                n_struct += 1
            elif v == "sat":
                n_sat += 1
            else:
                n_unk += 1
                inconclusive.append({"config": cfg, "obligation": ob["name"], "reason": ob.get("reason", v)})
        for g, gv in r["guards"].items():
            if not gv["ok"]:
                guard_fail.append({"config": cfg, "guard": g, "detail": gv["detail"]})
        for c in r["cex"]:
            sig = f"{prop}:{c['sig']}"
            if c["reproduced"] is False:
                harness.append({"config": cfg, "error": "counterexample did not reproduce on the real code", "cex": c})
                continue
            k = known_match(prop, sig, known)
            rec = {"signature": sig, "config": cfg, "obligation": c["name"], "model": c["model"], "detail": c["detail"]}
            if k is not None:
                known_hits.append((k, rec))
            else:
                violations.append(rec)
        if r.get("nontrivial"):
            nontrivial.add(json.dumps(cfg, sort_keys=True, default=repr))
        if r.get("sample") is not None and len(samples) < 6:
            samples.append(_jsonable(r["sample"]))
    wall = time.time() - (t0 or time.time())

    # replay files + output lines
    replay_paths = []
    for v in violations:
        d = VERIF / "replays" / prop
        d.mkdir(parents=True, exist_ok=True)
        h = hashlib.sha1(json.dumps(v, sort_keys=True, default=repr).encode()).hexdigest()[:12]
        p = d / f"{h}.json"
        p.write_text(json.dumps({"property": prop, **v}, indent=1, default=repr))
        replay_paths.append(str(p))
    printed = set()
    for k, rec in known_hits:
        key = k["signature"]
        if key in printed:
            continue
        printed.add(key)
        print(f"KNOWN-FINDING: property={prop} {k['signature']} -- {k.get('what', '')}")
    for p in replay_paths:
        print(f"VIOLATION property={prop} replay={p}")
    for h in harness[:10]:
        print(f"HARNESS-ERROR property={prop} {json.dumps(_jsonable(h), default=repr)[:1500]}", file=sys.stderr)
    for g in guard_fail[:10]:
        print(f"GUARD-FAILED property={prop} {json.dumps(g, default=repr)[:600]}", file=sys.stderr)
    for i in inconclusive[:10]:
        print(f"INCONCLUSIVE property={prop} {json.dumps(_jsonable(i), default=repr)[:600]}", file=sys.stderr)

    if violations:
        code = EXIT_VIOLATION
    elif harness or guard_fail:
        code = EXIT_HARNESS
    elif inconclusive:
        code = EXIT_INCONCLUSIVE
    else:
        code = EXIT_OK

    cov = {
        "explanation": (
            f"Bounded SMT verification by symbolic execution of the real pymablock code: {technique}. "
            f"{len(results)} configurations executed, {n_obl} obligations, {n_dis} discharged "
            f"({n_struct} of them syntactically, the rest `unsat` from z3), {n_sat} `sat`, {n_unk} unknown/killed. "
            "Each `unsat` holds for every value of the symbolic inputs of its configuration; nothing is claimed outside the bounds."
        ),
        "evaluations": len(results),
        "distinct_nontrivial": len(nontrivial),
        "rule": "one evaluation = one configuration executed symbolically; non-trivial = at least one obligation needed a solver call on a not identically-zero term at order >= 1 (distinct by configuration)",
        "obligations": n_obl,
        "discharged": n_dis,
        "discharged_structural": n_struct,
        "sat": n_sat,
        "unknown_or_killed": n_unk + sum(1 for r in results if r["_kind"] in ("timeout", "died")),
        "solver_queries": queries,
        "solver_seconds": round(solver_s, 2),
        "cvc5_crosschecks": cross,
        "cvc5_agree": cross_agree,
        "cvc5_disagree": cross_dis,
        "cvc5_seconds": round(cross_s, 2),
        "functions_encoded": sorted(functions),
        "bounds": bounds,
        "known_findings_hit": sorted({k["signature"] for k, _ in known_hits}),
        "violations": [v["signature"] for v in violations],
        "harness_errors": len(harness),
        "guard_failures": len(guard_fail),
        "inconclusive": len(inconclusive),
        "samples": samples or [_jsonable(results[0].get("config"))] if results else [],
        "checker_cmd": f"bin/vcheck {prop} --tier {tier}",
        "trusted_base": ["z3 5.1.0 (nlsat)", "cvc5 1.4.0 (cross-check of first query per configuration)", "vf/symc.py exact rational-function arithmetic", "CPython 3.12, numpy object-array dispatch"],
        "exhaustive": False,
    }
    slow = sorted(((r.get("wall_s", 0), r.get("config")) for r in results if r.get("_kind") == "done"), key=lambda t: -t[0])[:3]
    cov["slowest_jobs"] = [{"wall_s": w, "config": _jsonable(c)} for w, c in slow]
    if extra_coverage:
        cov.update(extra_coverage)
    ev = {
        "property_id": prop,
        "tier": tier,
        "seed": int(seed),
        "level": level,
        "coverage": cov,
        "assumptions": list(assumptions),
        "wall_s": round(wall, 2),
        "violations": len(violations),
        "exit_code": code,
    }
    if write:
        d = VERIF / "evidence"
        d.mkdir(exist_ok=True)
        (d / f"{prop}.json").write_text(json.dumps(ev, indent=1, default=repr))
    print(
        f"{prop} [{tier}] configs={len(results)} obligations={n_obl} discharged={n_dis} sat={n_sat} "
        f"unknown={n_unk} known={len(printed)} violations={len(violations)} harness={len(harness)} "
        f"guards_failed={len(guard_fail)} inconclusive={len(inconclusive)} solver={solver_s:.1f}s wall={wall:.1f}s exit={code}"
    )
    return code
