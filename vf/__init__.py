"""vf: solver-based verification framework for pymablock (see ../DESIGN.md)."""
