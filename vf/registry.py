"""Property registry: which jobs decide which property, with the stated bounds and assumptions."""
from __future__ import annotations

from . import configs

COMMON_ASSUMPTIONS = [
    "exact rational arithmetic replaces IEEE floats (rounding is outside the claim)",
    "denominator atoms (energy gaps between coupled / eliminated levels) are non-zero = documented well-posedness precondition",
    "numpy object-array dispatch and CPython semantics are trusted",
    "z3 `unsat` verdicts are trusted; the first query of every configuration is re-decided by cvc5",
]

HERM_BOUNDS = {
    "quick": "layouts {1|1,1|2,2|1,2|2,1|1|1,1|1|2}, N<=4; 1 parameter to order 3 (symbolic spectrum: order 3 for N<=3, 2 for N=4; "
    "block-degenerate symbolic spectrum order 3), 1st+2nd order terms with exact rational spectra to order 3, 2 parameters + mixed term "
    "to total order 3 (N<=3); carrier A (real diagonal solver, numpy branch): dyadic spectra, fully_diagonalize tuples and symmetric masks on 2-3 dim blocks; "
    "carrier C: symbolic spectra + masks, sympy-expression input with mixed monomials (x, y, x*y / x**2*y; x, x**3)",
    "thorough": "all compositions of N<=5 into <=3 blocks plus 1|1|1|1; rational spectra to order 4 (N<=4) / 3 (N=5); symbolic spectra N<=4; "
    "2 parameters to total order 4, 3 parameters to total order 3 (N<=3); partly degenerate symbolic spectra; all listed masks on carrier A",
}


def _herm_jobs(func):
    def jobs(tier, seed):
        return [("vf.props.herm", func, c) for c in configs.hermitian_configs(tier, hermitian=True)]

    return jobs


def _job_of(mod, func):
    return lambda cfg: (mod, func)


REGISTRY = {
    "C01": dict(
        jobs=lambda tier, seed: _herm_jobs("c01")(tier, seed) + [("vf.props.herm", "dtype_twin", c) for c in __import__("vf.props.herm", fromlist=["x"]).dtype_twin_configs(tier, True)],
        job_of_config=lambda cfg: ("vf.props.herm", "dtype_twin" if cfg.get("_job") == "dtype_twin" else "c01"),
        technique="real block_diagonalize executed on z3-backed symbolic matrices (carriers A: numeric dyadic H0 + real diagonal solver incl. masks; "
        "B: documented solve_sylvester callback with symbolic/rational spectrum); own dense Cauchy triple product U^dagger H U from returned U, U^dagger and the input terms; "
        "z3 decides `exists inputs: lhs != rhs` per order for kept and eliminated positions; dtype-branch twin (concrete, declared): the same code on float64 / complex128 / mixed / int numpy inputs "
        "at one dyadic point per configuration must reproduce the symbolic result evaluated there and leave the inputs unmodified (also as unblocked matrices in units of 2^-44 and 2^30 with atol scaled alike); "
        "carrier C (the library's sympy mode) also receives the Hamiltonian as one sympy matrix in the perturbative symbols (the library's Taylor expansion), read back at the point (2,3,5,7) of those symbols",
        bounds=HERM_BOUNDS,
        assumptions=COMMON_ASSUMPTIONS + ["sparse-valued perturbations and the scipy.sparse branch of the diagonal solver are outside (cannot hold symbolic payloads)"],
        timeout_s={"quick": 300, "thorough": 1500},
    ),
    "C02": dict(
        jobs=_herm_jobs("c02"),
        job_of_config=_job_of("vf.props.herm", "c02"),
        technique="same symbolic executions as C01; z3 decides U^dagger U = U U^dagger = 1 (own Cauchy products), adjoint pairing of the two returned series and Hermiticity of H_tilde, entrywise for all values",
        bounds=HERM_BOUNDS,
        assumptions=COMMON_ASSUMPTIONS,
        timeout_s={"quick": 300, "thorough": 1500},
    ),
    "C03": dict(
        jobs=_herm_jobs("c03"),
        job_of_config=_job_of("vf.props.herm", "c03"),
        technique="differential: real library outputs vs an unoptimised reference solver over the same symbolic inputs (unitarity + elimination + least-action gauge, multiplies by H_0 explicitly); "
        "z3 decides lib != ref for H_tilde, U, U^dagger and the gauge condition at every order",
        bounds=HERM_BOUNDS,
        assumptions=COMMON_ASSUMPTIONS,
        timeout_s={"quick": 300, "thorough": 1500},
    ),
    "C04": dict(
        jobs=_herm_jobs("c04"),
        job_of_config=_job_of("vf.props.herm", "c04"),
        technique="truncated power sums tr[(sum lambda^n H_tilde_n)^k], k=1..N, compared by z3 with those of H(lambda) (equality of power sums = equality of characteristic polynomials in char 0); "
        "closed Rayleigh-Schroedinger formulas (orders 2,3) for fully diagonalised non-degenerate configurations; never reads U",
        bounds=HERM_BOUNDS,
        assumptions=COMMON_ASSUMPTIONS,
        timeout_s={"quick": 300, "thorough": 1500},
    ),
    "C05": dict(
        jobs=lambda tier, seed: (
            [("vf.props.nonherm", "c05", c) for c in configs.hermitian_configs(tier, hermitian=False)]
            + [("vf.props.nonherm", "c05_vs_hermitian", dict(c, _vs=1, max_order=min(c["max_order"], 2) if (c.get("spectrum") in ("sym", "symdeg") and sum(c["sizes"]) >= 4) else c["max_order"]))
               for c in configs.hermitian_configs(tier, hermitian=True) if (c["max_order"] <= 3 or tier == "thorough") and sum(c["sizes"]) <= 6]
            + [("vf.props.herm", "dtype_twin", c) for c in __import__("vf.props.herm", fromlist=["x"]).dtype_twin_configs(tier, False)]
        ),
        job_of_config=lambda cfg: ("vf.props.herm", "dtype_twin") if cfg.get("_job") == "dtype_twin" else ("vf.props.nonherm", "c05_vs_hermitian" if cfg.get("_vs") else "c05"),
        technique="real block_diagonalize(hermitian=False) executed on symbolic general complex matrices (carrier B: complex symbolic/rational spectrum via callback solver; "
        "carrier A: real diagonal solver with symmetric and asymmetric masks); z3 decides U_inv U = U U_inv = 1, U_inv H U = H_tilde on kept / 0 on eliminated (own Cauchy products), "
        "the gauge condition, and equality with the Hermitian-mode outputs on Hermitian symbolic input (two real runs)",
        bounds=HERM_BOUNDS,
        assumptions=COMMON_ASSUMPTIONS + ["complex energy gaps enter as atoms |E_a-E_b|^2 != 0"],
        timeout_s={"quick": 300, "thorough": 1500},
    ),
    "C18": dict(
        jobs=lambda tier, seed: __import__("vf.props.cauchy", fromlist=["configs"]).configs(tier, seed),
        job_of_config=_job_of("vf.props.cauchy", "c18"),
        technique="real cauchy_dot_product / product_by_order executed on BlockSeries of symbolic matrices; z3 decides product element != own nested-loop sum over intermediate blocks and order splittings "
        "(zero = absent, one = identity), for 2-4 factors, rectangular blocks, 1-3 parameters, enumerated sentinel patterns and request schedules; hermitian=True vs False on X^dagger X and X^dagger B X; "
        "concrete call-log obligation: a lazily evaluated factor element is requested only if a complementary element of the other factor is not declared absent, and never twice",
        bounds={
            "quick": "2-4 factors, blocks of dims 1-2 (up to 3x3 blocks), 1-3 parameters, factor terms to order 1-2, requests to total order 2-3, three schedules; sentinel patterns on the 2x2-block/orders{0,1}/2-factor grid: "
            "every single cell absent, every diagonal cell identity, 60 cross-factor pairs, 50 random dense patterns",
            "thorough": "as quick plus all 1000+ cross-factor sentinel pairs, 500 random dense patterns, 3x3 blocks to order 3, three parameters to order 3",
        },
        assumptions=COMMON_ASSUMPTIONS[:1] + COMMON_ASSUMPTIONS[2:] + ["`one` is only placed on square diagonal blocks (its documented meaning: identity at zeroth order)"],
        timeout_s={"quick": 300, "thorough": 900},
    ),
    "C12": dict(
        jobs=lambda tier, seed: __import__("vf.props.relations", fromlist=["x"]).configs_c12a(tier),
        job_of_config=lambda cfg: ("vf.props.relations", "c12_lazy_formats" if cfg.get("_job") == "lazy_formats" else "c12a"),
        technique="2-safety (non-interference) query on the real block_diagonalize: Hamiltonian terms of order m<=n share variables x, all other terms get independent variables y / y'; "
        "z3 decides output_n(x,y) != output_n(x,y') for H_tilde, U, U_inv at every order n of the box; plus the concrete call log of a lazily defined Hamiltonian BlockSeries, "
        "exhaustive over output x block x order of the box: definition evaluates zeroth order only, a request at n evaluates only m<=n componentwise and nothing twice "
        "(also whole request schedules; unblocked lazy series through subspace_indices / complete eigenvectors / implicit mode with the real sparse LU; H_0 with an exactly vanishing block; lazily defined series of second-quantised operator matrices)",
        bounds={
            "quick": "layouts {1|1,1|2,2|1,1|1|1}, both modes; 1 parameter: terms at orders 1..4, requests to order 3; 2 parameters: terms to total order 2, requests to total order 2; full-diag and mask variants on carrier A",
            "thorough": "adds 2|2 and 1|1|2, two parameters with terms to total order 3",
        },
        assumptions=COMMON_ASSUMPTIONS + ["only evaluations of the user's Hamiltonian series are counted (internal series may be re-evaluated after deletion)"],
        timeout_s={"quick": 300, "thorough": 900},
    ),
    "C13": dict(
        jobs=lambda tier, seed: __import__("vf.props.relations", fromlist=["x"]).configs_c13(tier),
        job_of_config=lambda cfg: ("vf.props.relations", "c13_sympy" if cfg.get("sympy_format") else "c13"),
        technique="pairs of real block_diagonalize runs over shared symbolic inputs related by: scaling perturbation k by a SYMBOLIC factor c_k, merging two parameters, permuting parameters, adding a vanishing parameter, lambda->lambda^p; "
        "z3 decides the transformed-output relation for H_tilde, U, U_inv at every order",
        bounds={
            "quick": "layouts {1|1,1|2,2|1,1|1|1}, both modes, rational (complex for non-Hermitian) spectra to total order 3 and symbolic spectra to order 2; relations scale(1,2 params incl. mixed term), merge, permute, vanishing, power 2; masks/full diag on carrier A",
            "thorough": "adds 2|2, 1|1|2, 3, 1|3, power 3 and 3-parameter cyclic permutation",
        },
        assumptions=COMMON_ASSUMPTIONS,
        timeout_s={"quick": 300, "thorough": 1200},
    ),
    "C15": dict(
        jobs=lambda tier, seed: __import__("vf.props.relations", fromlist=["x"]).configs_c15(tier),
        job_of_config=_job_of("vf.props.relations", "c15"),
        technique="pairs/triples of real block_diagonalize runs over shared symbolic inputs related by block relabelling (all permutations), basis permutation, complex conjugation, symbolic shift mu of H_0, "
        "symbolic positive scale s, Cayley-parametrised rotation (symbolic t, phase u) inside a degenerate level, direct sum of two decoupled symbolic problems; z3 decides the covariance relation for H_tilde, U, U_inv at every order",
        bounds={
            "quick": "layouts up to N=4 (1|2,2|1,1|1|2,1|2|1,2|2,1|3), both modes, orders <=3, rational/complex exact spectra and symbolic spectra (shift, relabel) to order 2; full and selective diagonalisation on carrier A",
            "thorough": "adds all block permutations of 2|2,1|1|1,2|1|1,1|3, rotations in 2|2, 3|1, 1|1|2 to order 3, larger direct sums",
        },
        assumptions=COMMON_ASSUMPTIONS + ["the float-relative degeneracy threshold (1e-5 / atol) is a rounding statement and outside the claim", "scale factor s > 0, rotation denominators 1+t^2, 1+u^2 are atoms"],
        timeout_s={"quick": 300, "thorough": 1200},
    ),
    "C10": dict(
        jobs=lambda tier, seed: __import__("vf.props.history", fromlist=["x"]).configs_c10(tier, seed),
        job_of_config=lambda cfg: ("vf.props.history", "c10_product" if cfg.get("product") else ("c10_formats" if cfg.get("formats") else ("c10_implicit" if cfg.get("implicit") else "c10"))),
        technique="request schedules (element and slice requests over H_tilde, U, U_inv, optionally interleaved between two computations built from the same input objects) are the enumerated paths; "
        "values stay symbolic and after every request z3 decides value != fresh-computation value (syntactically identical z3 terms discharged structurally, verdicts cached); "
        "identity snapshots of all input arrays and of every value already handed out are re-checked after each schedule",
        bounds={
            "quick": "1|1 (terms at orders 1,2), 1|2, 1|1|1 to order 2-3, both modes: exhaustive k=2 over the full alphabet (elements of orders 1..2 and slice requests), 1200 sampled k=3 schedules, "
            "sampled histories of length 4-6 incl. two interleaved computations; carrier A with full-diag / symmetric / asymmetric masks: exhaustive k=2 and sampled k=5",
            "thorough": "k=3 exhaustive over the scalar alphabet of 1|1 (13824 schedules per mode), 10x more sampled long histories",
        },
        assumptions=COMMON_ASSUMPTIONS + ["implicit (LinearOperator) mode histories: exhaustive k=2 on a 3-dim problem and sampled k=4 on a 4-dim problem, with the exact-LU stub of C06"],
        timeout_s={"quick": 400, "thorough": 1800},
    ),
    "C11": dict(
        jobs=lambda tier, seed: __import__("vf.props.history", fromlist=["x"]).configs_c11(tier, seed),
        job_of_config=_job_of("vf.props.history", "c11"),
        level="fault_enumeration",
        technique="exhaustive fault injection: every invocation index of the three user callbacks (Hamiltonian eval, solve_sylvester, element matmul) of a clean symbolic run x {Exception, RuntimeError, KeyboardInterrupt} (Hamiltonian as a blocked series or as a lazily defined series of nested block lists); "
        "asserted: exception reaches the caller with its type, no PENDING marker reachable from any cache, and every element requested afterwards is decided equal (z3 / syntactic identity) to the clean run; double faults",
        bounds={
            "quick": "1|1 to order 3, 1|2 and 1|1|1 to order 2 (terms at orders 1,2), both modes, 3 trigger requests x 2 follow-up schedules, plus double faults",
            "thorough": "all layouts to order 3, 6 trigger requests",
        },
        assumptions=COMMON_ASSUMPTIONS + ["RuntimeError raised by a callback may be re-raised as RuntimeError with a different message (documented wrapping)"],
        timeout_s={"quick": 400, "thorough": 1800},
    ),
    "C14": dict(
        jobs=lambda tier, seed: __import__("vf.props.formats", fromlist=["x"]).configs(tier),
        job_of_config=lambda cfg: ("vf.props.formats", "c14_operator" if cfg.get("operator") else ("c14_sparse_dense" if cfg.get("sparse_dense") else ("c14_sparse_vectors" if cfg.get("sparse_vectors") else "c14"))),
        technique="the same symbolic Hamiltonian (sympy values, translated node-by-node to z3 terms) is passed to the real block_diagonalize as list, tuple-key dict, monomial-key dict, sympy matrix with symbols "
        "(incl. analytic dependence vs exact Taylor coefficients), nested block lists, BlockSeries, with subspace_indices / identity / rational real-orthogonal / complex-unitary / biorthogonal eigenvector matrices; "
        "z3 decides output(format) != output(reference format) for H_tilde, U, U_inv at every order; operator_to_BlockSeries blocks vs own L^dagger A R",
        bounds={
            "quick": "layouts 1|2, 2|1 (N=3), both modes, 1 parameter to order 3 and 2 parameters + mixed term to order 2, symbolic spectrum to order 2, analytic dependences geom/exp/square to order 2-3, full-diag and mask variants",
            "thorough": "adds 1|1|1, 2|2, 1|1|2 and sin(lambda)",
        },
        assumptions=COMMON_ASSUMPTIONS + ["dense-vs-scipy.sparse value equivalence cannot be symbolic (sparse cannot hold symbolic payloads): it is decided by exhaustive concrete enumeration of integer problems (spectra {0,1,2}^N, all block assignments, fully_diagonalize none/all/mask)",
                                          "sympy's own arithmetic/diff/subs is trusted where the library calls it; the sympy->z3 translation is validated at a seeded rational point on every run"],
        timeout_s={"quick": 400, "thorough": 1500},
    ),
    "C16": dict(
        jobs=lambda tier, seed: __import__("vf.props.solvers", fromlist=["x"]).configs(tier),
        job_of_config=lambda cfg: ("vf.props.secondq", "c16_2nd_quant") if cfg.get("_job") == "2nd_quant" else (("vf.props.implicit", "c16_direct") if cfg.get("_job") == "direct" else ("vf.props.solvers", "c16_diagonal_sparse" if cfg.get("branch") == "sparse" else "c16_diagonal")),
        technique="the real solver callables are executed on symbolic right-hand sides (and symbolic energies in the sympy branch); z3 decides residual H0_i V - V H0_j - Y != 0 entrywise "
        "(V = 0 where energies coincide inside a block); scipy.sparse right-hand sides cannot carry symbolic payload: that sub-claim is an exhaustive concrete enumeration "
        "(every sparsity pattern x csr/csc/coo x dyadic values, exact residual)",
        bounds={
            "quick": "solve_sylvester_diagonal numpy branch (dyadic real/complex spectra, degenerate levels, zero block, 1-3 blocks of dims 1-3, both orientations and diagonal blocks) and sympy branch "
            "(symbolic / rational / complex energies, equal symbols -> zoo handling, non-square blocks, zero block); second-quantised solver on 6 operator families; "
            "solve_sylvester_direct / direct_greens_function (exact-LU stub): both orientations, degenerate and biorthogonal explicit levels, real/complex eigenvectors, dim 3-4",
            "thorough": "adds 3|3|1 symbolic and 3|2 numeric spectra",
        },
        assumptions=COMMON_ASSUMPTIONS + ["scipy.sparse branch of the diagonal solver only by concrete enumeration (dims <= 3, dyadic values); KPM greens_function/rescale and real sparse-LU accuracy are outside (compiled float kernels); see not_applicable notes in DESIGN.md"],
        timeout_s={"quick": 300, "thorough": 900},
    ),
    "C20": dict(
        jobs=lambda tier, seed: __import__("vf.props.illposed", fromlist=["x"]).configs(tier),
        job_of_config=lambda cfg: ("vf.props.illposed", "c20_numeric" if cfg.get("numeric") else "c20_symbolic"),
        technique="each ill-posedness class (H_0 not block diagonal, shared level between coupled blocks, mask on a degenerate pair, asymmetric Hermitian mask, non-(bi)orthonormal eigenvectors, "
        "non-Hermitian symbolic term, exclusive options) is embedded at every position of the common layouts in an otherwise SYMBOLIC problem and the real code is executed: a listed exception type must be raised "
        "no later than the first evaluation needing the quantity, and a division by an identically zero symbolic quantity is a violation; "
        "numeric sub-claim (finiteness / reject-iff-ill-posed incl. scipy.sparse values) by exhaustive enumeration of integer spectra {0,1,2}^N x block assignments x fully_diagonalize variants x dense/sparse",
        bounds={
            "quick": "layouts {1|1,1|2,2|1,1|1|1,2|2,1|1|2}, both modes, every block position; numeric domain N<=3 (all 2- and 3-block assignments), orders <=3, plus N=4 sparse masks",
            "thorough": "numeric domain N<=4",
        },
        assumptions=["for a sympy H_0 whose off-diagonal block sympy cannot prove zero the library warns and proceeds by design (counted as not silent)",
                     "the Hermiticity check of symbolic terms is only claimed for the sympy-matrix/expression input format that documents it",
                     "the numeric sub-claim is decided by exhaustive concrete enumeration (compiled float kernels are out of reach of a solver); exit code semantics are the same"],
        timeout_s={"quick": 400, "thorough": 1500},
    ),
    "C08": dict(
        jobs=lambda tier, seed: __import__("vf.props.nof", fromlist=["x"]).configs(tier),
        job_of_config=lambda cfg: ("vf.props.nof", "c08_cancellation" if cfg.get("_job") == "cancellation" else "c08"),
        technique="operator words over boson / fermion / spin / ladder alphabets are enumerated; the real NumberOrderedForm.from_expr, *, +, -, **, adjoint and as_expr run on them; "
        "both sides are denoted by one independent evaluator (action on a Fock state with SYMBOLIC boson/ladder occupations and symbolic scalar coefficients, binary occupations case-split, Jordan-Wigner signs) "
        "and z3 decides action(library result) != action(original word(s)); sat models are replayed in a truncated matrix representation",
        bounds={
            "quick": "alphabets: 1 boson (a, a+, N, N+1, a^2, a+^2), 2 bosons, 2 and 3 fermions, spin, ladder, boson+fermion, boson+spin, mixed 5-mode; all words up to length 3-4, every left|right splitting, "
            "both association orders of 3-way splittings, adjoint, powers 2,3 of words <=2, sums/differences/scalar multiples and both distributive laws over words <=2",
            "thorough": "words up to length 4-6 (3 fermions: 5, 1 boson: 6)",
        },
        assumptions=["occupation numbers of bosons are real n >= 0 (a rational identity valid for all integers is valid identically); states closer to a truncation edge than the word length are outside",
                     "sympy's own evaluation of products of Pauli / number operators when the word is built is trusted", "z3 `unsat` trusted, first query per job cross-checked by cvc5"],
        timeout_s={"quick": 400, "thorough": 2400},
    ),
    "C07": dict(
        jobs=lambda tier, seed: __import__("vf.props.secondq", fromlist=["x"]).configs(tier),
        job_of_config=lambda cfg: ("vf.props.secondq", "c07_accepted" if cfg.get("_job") == "accepted" else "c07"),
        technique="real block_diagonalize on second-quantised Hamiltonians (bosons, fermions, spins, ladder operators, operator masks, matrix-valued) with SYMBOLIC parameters; the returned operator series are denoted by "
        "their action on a Fock state with symbolic boson occupations (binary occupations case-split) and z3 decides the operator identities U^dagger U = 1, U^dagger H U = H_tilde, U^dagger = adjoint(U), "
        "H_tilde has only kept components, anti-Hermitian part of U only eliminated ones (=> uniqueness => equality with the matrix result); an acceptance job (concrete): valid inputs in forms the evaluator cannot denote "
        "(elimination rules with wildcard powers, matrices of generic Hermitian operators) must be accepted and give the result of the equivalent plainly written input; plus a literal comparison with numeric block_diagonalize of truncated matrices at a seeded parameter point",
        bounds={
            "quick": "16 model families (anharmonic x^3/x^4, displaced, Kerr+two-photon drive, two bosons, Rabi, detuned JC, 2-fermion hopping, 3-fermion hopping+pairing, interacting fermions, Holstein, ladder+spin, "
            "two operator masks, 2x2 matrix-valued with 1 and 2 blocks) to order 2-3",
            "thorough": "same families to order 3-4",
        },
        assumptions=["boson occupations are real n >= 0 and denominators (energy differences incl. n-dependent ones) are non-zero atoms = documented non-degeneracy precondition; Fock states closer to the vacuum than the operator degree are covered through polynomial factors of n",
                     "symbolic powers in masks and non-rational functions of number operators are outside", "z3 `unsat` trusted; first query per job cross-checked by cvc5"],
        timeout_s={"quick": 400, "thorough": 1800},
    ),
    "C19": dict(
        jobs=lambda tier, seed: __import__("vf.props.indexing", fromlist=["x"]).configs(tier),
        job_of_config=lambda cfg: ("vf.props.indexing", "c19_recursion" if cfg.get("recursion") else "c19_contract"),
        technique="CrossHair (symbolic execution of Python with z3) on contracts over the real BlockSeries.__getitem__: the index expression (ints incl. negative finite indices, lists, forward slices, mixed; "
        "1-2 infinite dimensions; scalar series; finite-only views) is built from symbolic small integers, the postcondition compares with numpy indexing of the dense table of element values with zero-masking, "
        "checks at-most-once evaluation while cached and IndexError for infinite / negative orders; only `Confirmed over all paths` counts; self-reference => RuntimeError checked concretely",
        bounds={"quick": "integers in boxes within [-3, 5] (see the pre-conditions in vf/ch/indexing.py), shapes (2,2)+1, (2,)+2, ()+1; 150 s per contract", "thorough": "same boxes, 900 s per contract"},
        assumptions=["CrossHair realises integers at the numpy boundary, so each path is one concrete index expression; `Confirmed over all paths` = the whole box was covered", "element values are tagged integers; absent elements follow a fixed rule (sum of indices = 2 mod 3)"],
        timeout_s={"quick": 400, "thorough": 1200},
    ),
    "C17": dict(
        jobs=lambda tier, seed: __import__("vf.props.projector", fromlist=["x"]).configs(tier),
        job_of_config=_job_of("vf.props.projector", "c17"),
        technique="the real ComplementProjector is built from SYMBOLIC complex R, L (object arrays of z3-backed scalars; L=R, independent L, and L^dagger R = 1 by parametrisation) and driven through its primitive methods and "
        "SciPy's LinearOperator algebra (matvec/matmat/rmatvec/rmatmat, left multiplication, .T/.H/conjugate chains, P A P composites and their adjoint/transpose/right-multiplication, sums, scalar multiples); "
        "z3 decides result != dense (1 - R L^dagger) expression entrywise; idempotence under L^dagger R = 1; shape/dtype concretely; all obligations run on ONE projector object (cached derived operators), in three orders (listed, derived operators first, reversed), "
        "and a counterexample is replayed after the same operations in the same order",
        bounds={"quick": "n<=3, k<=2, real and complex, chains of length <=2", "thorough": "n<=4, k<=2, chains of length <=3 (n<=3)"},
        assumptions=COMMON_ASSUMPTIONS[:1] + COMMON_ASSUMPTIONS[2:] + ["SciPy's LinearOperator composition classes are part of the code under test (they run on object arrays)", "sparse operands inside composites are numeric only and outside"],
        timeout_s={"quick": 300, "thorough": 900},
    ),
    "C06": dict(
        jobs=lambda tier, seed: __import__("vf.props.implicit", fromlist=["x"]).configs(tier),
        job_of_config=lambda cfg: ("vf.props.implicit", "c06_typed" if cfg.get("_job") == "typed" else "c06"),
        technique="real implicit-mode block_diagonalize (operator_to_BlockSeries(implicit=True), ComplementProjector, solve_sylvester_direct grouping / pivots / both orientations, direct_greens_function, "
        "LinearOperator series wiring) executed with exactly representable numeric H_0 and eigenvectors and a SYMBOLIC perturbation; scipy's sparse LU is stubbed by exact rational elimination; "
        "z3 decides every explicit block and every block touching the implicit subspace (applied to the identity) != complete-basis result embedded by the complement basis; sat models are replayed with the REAL sparse LU in floats; typed twin (concrete, declared): every configuration also runs with complex128 / float64 numpy and scipy.sparse inputs and the real sparse LU at one dyadic point, implicit == embedded complete-basis result",
        bounds={
            "quick": "dim 3-4, one or two explicit blocks (sizes 1-2), real orthogonal / permutation / Hadamard and complex-unitary (dyadic) eigenbases, degenerate explicit level, dense and sparse H_0, "
            "(R,L) pair form in non-Hermitian mode, orders <=3",
            "thorough": "adds dim 5 and order 4",
        },
        assumptions=COMMON_ASSUMPTIONS + ["stub: scipy.sparse.linalg.factorized replaced by exact rational elimination (contract A solve(b) = b); accuracy of SuperLU/MUMPS is outside",
                                          "NOT APPLICABLE sub-claims: KPM solver and its tolerance claim (iterative float code), MUMPS"],
        timeout_s={"quick": 400, "thorough": 1500},
    ),
    "C09": dict(
        jobs=lambda tier, seed: __import__("vf.props.dsl", fromlist=["x"]).configs(tier, seed),
        job_of_config=lambda cfg: ("vf.props.dsl", "c09_shipped" if cfg.get("shipped") else ("c09_docstring" if cfg.get("docstring") else ("c09_handwritten" if cfg.get("handwritten") else "c09_generated"))),
        level="translation_validation",
        post=lambda results, tier: {
            "programs": sum((r.get("sample") or {}).get("programs", 1) if r.get("_kind") == "done" else 0 for r in results),
            "programs_discarded_not_well_founded": sum((r.get("sample") or {}).get("discarded_not_well_founded", 0) for r in results if r.get("_kind") == "done"),
            "disagreements_checked": sum(len(r.get("cex", [])) for r in results if r.get("_kind") == "done"),
        },
        technique="translation validation: for each program (the two shipped algorithms under all two_block_optimized / commuting_blocks / mask-wrapper combinations, grammar-generated programs (right operands of +/- parenthesised at random), hand-written programs incl. differences whose right operand is a parenthesised (nested) sum, the docstring example) "
        "the real series_computation compiles and runs it on SYMBOLIC input series and z3 decides, for every element of every series in the returned dict (incl. deleted intermediates and products), "
        "library value != value of an independent direct interpreter of the documented semantics (vf/dslref.py); three request schedules; ill-founded elements must raise RuntimeError",
        bounds={
            "quick": "shipped: layouts {1|1,1|2,2|1,1|1|1}, orders <=3, all flag combinations, 3 schedules, 2 parameters on 1|1; 80 generated programs (3 series, <=2 products of 2-3 factors, all documented statement kinds) on 1|1 and 2|1 to order 2; docstring example",
            "thorough": "adds 2|2 and 1|1|2, 800 generated programs",
        },
        assumptions=COMMON_ASSUMPTIONS[:1] + COMMON_ASSUMPTIONS[2:] + ["series whose zeroth order is the identity sentinel (`start = 1`) are only used as outputs in generated programs (the sentinel supports no arithmetic, as documented)",
                                                                    "linear-operator mode of the compiled code is exercised by C06, not here"],
        timeout_s={"quick": 400, "thorough": 1800},
    ),
}

# Properties not (yet) claimed, each with the reason.  Entries disappear as checks are registered.
_PENDING = "check not built yet in this session (framework under construction); no claim is made"
NOT_APPLICABLE = {f"C{i:02d}": _PENDING for i in range(1, 21)}
