"""vcheck CLI:  vcheck <Cxx> [--tier quick|thorough] [--only SUBSTR] [--jobs N]   |   vcheck replay <path>"""
from __future__ import annotations

import argparse
import json
import os
import random
import sys
import time

from . import engine
from .registry import REGISTRY


def main(argv=None):
    argv = list(sys.argv[1:] if argv is None else argv)
    if argv and argv[0] == "replay":
        return replay(argv[1])
    ap = argparse.ArgumentParser()
    ap.add_argument("prop")
    ap.add_argument("--tier", default=os.environ.get("VERIF_TIER", "quick"), choices=["quick", "thorough"])
    ap.add_argument("--only", default=None, help="substring filter on the JSON of a configuration (debugging)")
    ap.add_argument("--jobs", type=int, default=None)
    ap.add_argument("--no-evidence", action="store_true")
    ap.add_argument("--list", action="store_true")
    a = ap.parse_args(argv)
    seed = int(os.environ.get("VERIF_SEED", "0") or 0)
    spec = REGISTRY[a.prop]
    t0 = time.time()
    jobs = spec["jobs"](a.tier, seed)
    if a.only:
        jobs = [j for j in jobs if a.only in json.dumps(j[2], sort_keys=True)]
    # the seed only orders configurations (scheduling) - the set is fixed
    random.Random(seed).shuffle(jobs)
    jobs.sort(key=lambda j: -j[2].get("_cost", 0) if isinstance(j[2], dict) else 0)
    if a.list:
        for j in jobs:
            print(json.dumps(j[2]))
        return 0
    tmo = spec.get("timeout_s", {}).get(a.tier, 300)
    results = engine.run_jobs(jobs, nproc=a.jobs, timeout_s=tmo, mem_gb=spec.get("mem_gb", 6))
    post = spec.get("post")
    extra = post(results, a.tier) if post else None
    code = engine.finish(
        a.prop,
        a.tier,
        seed,
        results,
        level=spec.get("level", "other"),
        technique=spec["technique"],
        bounds=spec["bounds"][a.tier] if isinstance(spec["bounds"], dict) else spec["bounds"],
        assumptions=spec["assumptions"],
        t0=t0,
        extra_coverage=extra,
        write=not (a.no_evidence or a.only),
    )
    return code


def replay(path):
    """Re-run a stored counterexample against the current /repo: re-executes the owning job's configuration."""
    data = json.loads(open(path).read())
    prop = data["property"]
    spec = REGISTRY[prop]
    cfg = data["config"]
    mod, func = spec["job_of_config"](cfg)
    res = engine.run_jobs([(mod, func, cfg)], nproc=1, timeout_s=900, progress=False)
    r = res[0]
    bad = [c for c in r.get("cex", []) if c.get("reproduced")]
    if bad:
        for c in bad:
            print(f"REPRODUCED property={prop} {c['sig']} {json.dumps(c['detail'], default=repr)[:500]}")
        return 1
    print(f"not reproduced on the current tree ({r.get('_kind')}, {r.get('error')})")
    return 0


if __name__ == "__main__":
    sys.exit(main())
