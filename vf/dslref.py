"""DSLREF: a direct, unoptimised interpreter of pymablock's series mini-language (reference semantics for C09).

Shares no code with pymablock.algorithm_parsing: own parse of the `with` blocks (Python `ast`), own memo without
deletion, own nested-loop Cauchy product, no Hermiticity shortcuts in products, no linear-operator mode.

Semantics (read off the docstring of `series_computation`):
  * zeroth multi-order: `start = 0` -> absent on all blocks; `start = 1` -> the identity (diagonal blocks identity, off-diagonal
    blocks absent); `start = "X"` / `"X_0"` -> zeroth order of input series X on all blocks;
  * otherwise the value is the sum of the body statements in order:
      bare expression                      -> its value
      `if diagonal:` e                     -> diag(e, index) when i == j           (scope function `diag`, default identity)
      `if offdiagonal:` e                  -> e when i != j;  offdiag(e, index) when i == j and `offdiag` is in scope
      `hermitian` / `antihermitian` marker -> for i > j the value is +-Dagger(element (j, i, n)) and evaluation stops there
      `if lower:` e                        -> e when i > j, evaluation stops
  * "T" is element `index` of T; "T".adj is Dagger(element (j, i, n) of T); f("T") calls f(series T, index);
    f(expr) calls f(value, index); +, -, unary -, `/ k`; Python conditional expressions over scope values;
  * "A @ B @ ..." is the Cauchy product (`hermitian` declaration does not change the value).
Absent elements are represented by `None`.
"""
from __future__ import annotations

import ast
import inspect
import itertools
import textwrap

import numpy as np

from . import symc


class Cycle(Exception):
    pass


class ABSENT:
    pass


def _dagger(v):
    return None if v is None else symc.dagger(v)


def _add(a, b):
    if a is None:
        return b
    if b is None:
        return a
    return a + b


def _neg(a):
    return None if a is None else -a


class SeriesView:
    """What a scope function receives for f("T"): indexable like a BlockSeries, backed by the reference."""

    def __init__(self, ref, name):
        self.ref, self.name = ref, name

    def __getitem__(self, index):
        v = self.ref.element(self.name, tuple(index))
        return self.ref.zero if v is None else v


class Reference:
    def __init__(self, algorithm, inputs, dims, nparams, scope=None, zero=None, one=None):
        """algorithm: function (source is parsed) or source string; inputs: {name: callable(index)->matrix|None};
        dims: block dimensions; scope: names visible to the program (functions get (value|SeriesView, index))."""
        src = algorithm if isinstance(algorithm, str) else textwrap.dedent(inspect.getsource(algorithm))
        self.fn = ast.parse(src).body[0]
        self.inputs = inputs
        self.dims = list(dims)
        self.nb = len(dims)
        self.nparams = nparams
        self.scope = dict(scope or {})
        self.zero, self.one = zero, one
        self.series = {}
        self.products = {}
        self.outputs = []
        self._parse()
        self.memo = {}
        self.active = set()
        self.zero_order = (0,) * nparams

    # -- parsing ---------------------------------------------------------------------------------
    def _parse(self):
        for node in self.fn.body:
            if isinstance(node, ast.With):
                name = node.items[0].context_expr.value
                if "@" in name:
                    self.products[name] = [t for t in name.split(" @ ")]
                    continue
                start = ABSENT
                body = []
                for st in node.body:
                    if isinstance(st, ast.Assign) and st.targets[0].id == "start":
                        start = st.value.value
                    elif isinstance(st, ast.Expr) and isinstance(st.value, ast.Name) and st.value.id in ("hermitian", "antihermitian"):
                        body.append(("marker", st.value.id, None))
                    elif isinstance(st, ast.Expr):
                        body.append(("expr", None, st.value))
                    elif isinstance(st, ast.If) and isinstance(st.test, ast.Name) and st.test.id in ("diagonal", "offdiagonal", "lower"):
                        body.append(("expr", st.test.id, st.body[0].value))
                    elif isinstance(st, ast.Pass):
                        pass
                    else:
                        raise NotImplementedError(ast.dump(st)[:100])
                self.series[name] = (start, body)
            elif isinstance(node, ast.Return):
                v = node.value
                self.outputs = [v.value] if isinstance(v, ast.Constant) else [e.value for e in v.elts]

    def names(self):
        return list(self.series) + [p for p in self.products if not p.startswith("\x00")]

    # -- evaluation ------------------------------------------------------------------------------
    def element(self, name, index):
        index = tuple(int(k) for k in index)
        key = (name, index)
        if key in self.memo:
            return self.memo[key]
        if key in self.active:
            raise Cycle(f"{name}{index}")
        self.active.add(key)
        try:
            if name in self.inputs:
                v = self.inputs[name](index)
            elif name in self.products:
                v = self._product(self.products[name], index)
            elif name in self.series:
                v = self._series(name, index)
            else:
                raise KeyError(name)
        finally:
            self.active.discard(key)
        self.memo[key] = v
        return v

    def _identity(self, i):
        return symc.eye(self.dims[i])

    def _series(self, name, index):
        i, j, *order = index
        start, body = self.series[name]
        if tuple(order) == self.zero_order and start is not ABSENT:
            if start == 0:
                return None
            if start == 1:
                # "start = ... to define the zeroth order of the series", 1 = the identity: nothing off the diagonal
                return self._identity(i) if i == j else None
            elif isinstance(start, str):
                src = start[:-2] if start.endswith("_0") and start[:-2] in self.inputs else start
                if src in self.inputs:
                    return self.inputs[src](index)
                raise KeyError(f"start = {start!r}: no such input series")
        result = None
        for kind, cond, expr in body:
            if kind == "marker":
                if i > j:
                    v = _dagger(self.element(name, (j, i, *order)))
                    result = _add(result, v if cond == "hermitian" else _neg(v))
                    return result
                continue
            if cond is None:
                result = _add(result, self._eval(expr, index, diagonal=False))
            elif cond == "diagonal":
                if i == j:
                    v = self._eval(expr, index, diagonal=True)
                    f = self.scope.get("diag")
                    result = _add(result, self._call_wrapper(f, v, index) if f is not None else v)
            elif cond == "offdiagonal":
                if i != j:
                    result = _add(result, self._eval(expr, index, diagonal=False))
                elif self.scope.get("offdiag") is not None:
                    v = self._eval(expr, index, diagonal=False)
                    result = _add(result, self._call_wrapper(self.scope["offdiag"], v, index))
            elif cond == "lower":
                if i > j:
                    result = _add(result, self._eval(expr, index, diagonal=False))
                    return result
        return result

    def _call_wrapper(self, f, v, index):
        out = f(self.zero if v is None else v, index)
        return None if out is self.zero else out

    def _eval(self, node, index, diagonal):
        i, j, *order = index
        if isinstance(node, ast.Constant):
            if isinstance(node.value, str):
                return self.element(node.value, index)
            return node.value
        if isinstance(node, ast.Attribute) and node.attr == "adj":
            return _dagger(self.element(node.value.value, (j, i, *order)))
        if isinstance(node, ast.UnaryOp) and isinstance(node.op, ast.USub):
            return _neg(self._eval(node.operand, index, diagonal))
        if isinstance(node, ast.BinOp):
            if isinstance(node.op, (ast.Add, ast.Sub)):
                a = self._eval(node.left, index, diagonal)
                b = self._eval(node.right, index, diagonal)
                return _add(a, b if isinstance(node.op, ast.Add) else _neg(b))
            if isinstance(node.op, ast.Div):
                a = self._eval(node.left, index, diagonal)
                k = self._eval(node.right, index, diagonal)
                return None if a is None else a / k
            if isinstance(node.op, ast.Mult):
                # integer literal times an expression (either side)
                a = self._eval(node.left, index, diagonal)
                b = self._eval(node.right, index, diagonal)
                if isinstance(a, (int, float)) and not isinstance(b, (int, float)):
                    a, b = b, a
                return None if a is None else a * b
            raise NotImplementedError(ast.dump(node.op))
        if isinstance(node, ast.IfExp):
            test = eval(compile(ast.Expression(node.test), "<dslref>", "eval"), {}, dict(self.scope, index=index))
            return self._eval(node.body if test else node.orelse, index, diagonal)
        if isinstance(node, ast.Name):
            if node.id == "zero":
                return None
            return self.scope[node.id]
        if isinstance(node, ast.Call):
            f = self.scope[node.func.id]
            args = []
            for a in node.args:
                if isinstance(a, ast.Constant) and isinstance(a.value, str):
                    args.append(SeriesView(self, a.value))
                else:
                    v = self._eval(a, index, diagonal)
                    args.append(self.zero if v is None else v)
            out = f(*args, index)
            return None if out is self.zero else out
        raise NotImplementedError(ast.dump(node)[:120])

    def _product(self, terms, index):
        """Cauchy product. Evaluation order mirrors the documented intent of the library ("only query the highest order of a
        series if the other series has some 0th order terms"): products of more than two factors associate to the left, and
        in each two-factor term the cheaper (lower-order) factor is evaluated first and the term is skipped when it is absent.
        This only matters for deciding well-foundedness (where a cycle is hit), never for values."""
        if len(terms) > 2:
            left = "\x00" + " @ ".join(terms[:-1])
            if left not in self.products:
                self.products[left] = list(terms[:-1])
            return self._product2(left, terms[-1], index)
        return self._product2(terms[0], terms[1], index)

    def _product2(self, first, second, index):
        i, j, *order = index
        acc = None

        def cost(o):
            c = 1
            for x in o:
                c *= (x + 1) ** 2
            return c

        for mid in range(self.nb):
            for comp in _compositions(tuple(order), 2):
                i1, i2 = (i, mid, *comp[0]), (mid, j, *comp[1])
                if cost(comp[0]) <= cost(comp[1]):
                    a = self.element(first, i1)
                    if a is None:
                        continue
                    b = self.element(second, i2)
                    if b is None:
                        continue
                else:
                    b = self.element(second, i2)
                    if b is None:
                        continue
                    a = self.element(first, i1)
                    if a is None:
                        continue
                acc = _add(acc, symc.mm(a, b))
        return acc


def _compositions(order, parts):
    if parts == 1:
        yield (tuple(order),)
        return
    for first in itertools.product(*(range(o + 1) for o in order)):
        rest = tuple(o - f for o, f in zip(order, first))
        for tail in _compositions(rest, parts - 1):
            yield (first,) + tail
