"""Configuration sets (the enumerated part of every claim).  Fixed per tier; VERIF_SEED only reorders."""
from __future__ import annotations

import itertools

# exact rational spectra per total dimension (non-dyadic gaps on purpose); used by carrier B
RAT_SPECTRA = {
    2: ["0", "1"],
    3: ["0", "1", "3"],
    4: ["0", "1", "3", "7"],
    5: ["0", "1", "3", "7", "12"],
    6: ["0", "1", "3", "7", "12", "20"],
}
RAT_SPECTRA_ALT = {
    2: ["-1/3", "2/5"],
    3: ["2", "-1/2", "5/3"],
    4: ["1/2", "-3", "7/4", "2/3"],
    5: ["1/2", "-3", "7/4", "2/3", "11"],
}
CPLX_SPECTRA = {
    2: ["0", "1+1j"],
    3: ["-1j", "-1", "0"],
    4: ["0", "1+1j", "2-1j", "-1/2j"],
    5: ["0", "1+1j", "2-1j", "-1/2j", "3"],
}


def compositions_of(n, maxparts):
    """All compositions (ordered) of n into 1..maxparts positive parts."""
    out = []
    for k in range(1, maxparts + 1):
        for cuts in itertools.combinations(range(1, n), k - 1):
            parts = [b - a for a, b in zip((0,) + cuts, cuts + (n,))]
            out.append(parts)
    return out


def one_param_terms(with_second=False):
    return [[1], [2]] if with_second else [[1]]


def two_param_terms(mixed=False):
    t = [[1, 0], [0, 1]]
    if mixed:
        t.append([1, 1])
    return t


def hermitian_configs(tier, hermitian=True):
    """Shared configuration set for C01-C04 (hermitian=True) and C05 (hermitian=False)."""
    cfgs = []

    def add(**kw):
        kw.setdefault("hermitian", hermitian)
        if not hermitian and kw.get("spectrum") in ("sym", "symdeg"):
            # complex symbolic gaps (atoms |E_a-E_b|^2) are only tractable to 2nd order (probe: order 3 exceeds 300 s / 6 GB);
            # the real symbolic spectrum keeps the full order, complex exact spectra cover complex energies at higher order.
            # non-Hermitian symbolic spectra on N = 4 are only tractable to 2nd order (nlsat timeouts at order 3)
            cfgs.append(dict(kw, complex_spectrum=False, max_order=kw["max_order"] if sum(kw["sizes"]) <= 3 else min(2, kw["max_order"])))
            if sum(kw["sizes"]) <= 3:
                cfgs.append(dict(kw, complex_spectrum=True, max_order=min(2, kw["max_order"])))
            return
        cfgs.append(kw)

    quick_layouts = [[1, 1], [1, 2], [2, 1], [2, 2], [1, 1, 1], [1, 1, 2]]
    # --- carrier B: callback solver, symbolic spectrum ------------------------------------------
    for sizes in quick_layouts:
        N = sum(sizes)
        add(carrier="B", sizes=sizes, spectrum="sym", terms=[[1]], max_order=3 if N <= 3 else 2)
        add(carrier="B", sizes=sizes, spectrum="symdeg", terms=[[1]], max_order=3)
    # exact rational spectra reach further
    for sizes in quick_layouts:
        N = sum(sizes)
        add(carrier="B", sizes=sizes, spectrum=RAT_SPECTRA[N], terms=[[1], [2]], max_order=3)
    for sizes in [[1, 1], [1, 2], [2, 1], [1, 1, 1]]:
        N = sum(sizes)
        add(carrier="B", sizes=sizes, spectrum=RAT_SPECTRA_ALT[N], terms=[[1, 0], [0, 1], [1, 1]], max_order=3)
    # a few cheap order-4 configurations already in the quick tier (errors that first show at 4th order)
    for sizes in [[1, 1], [1, 2], [2, 1], [1, 1, 1]]:
        add(carrier="B", sizes=sizes, spectrum=RAT_SPECTRA_ALT[sum(sizes)], terms=[[1]], max_order=4)
    # --- carrier A: real numpy diagonal solver, masks (dyadic eliminated gaps) ---------------------
    add(carrier="A", sizes=[1, 1], spectrum=["0", "2"], terms=[[1]], max_order=3)
    add(carrier="A", sizes=[2, 2], spectrum=["0", "2", "1", "4"], terms=[[1]], max_order=3)
    add(carrier="A", sizes=[2, 1], spectrum=["0", "0", "2"], terms=[[1]], max_order=3)  # degenerate kept level
    add(carrier="A", sizes=[2, 2], spectrum=["0", "2", "1", "4"], terms=[[1]], max_order=3, fd=[0])
    add(carrier="A", sizes=[2, 1], spectrum=["0", "2", "1"], terms=[[1]], max_order=3, fd=[0, 1])
    add(carrier="A", sizes=[3], spectrum=["0", "1", "2"], terms=[[1]], max_order=3)  # single block => RS
    add(carrier="A", sizes=[3], spectrum=["0", "2", "2"], terms=[[1]], max_order=3)  # kept degenerate pair
    add(carrier="A", sizes=[3, 1], spectrum=["0", "2", "2", "4"], terms=[[1]], max_order=3,
        fd={"0": [[0, 1, 0], [1, 0, 0], [0, 0, 0]]})
    add(carrier="A", sizes=[1, 2], spectrum=["0", "1", "2"], terms=[[1]], max_order=3,
        fd={"1": [[0, 1], [1, 0]]})
    add(carrier="A", sizes=[1, 1, 2], spectrum=["0", "1", "2", "2"], terms=[[1, 0], [0, 1]], max_order=2, fd=[2])
    # --- carrier C: the library's sympy mode (sympy branches of masks and of the diagonal solver), symbolic spectra + masks
    add(carrier="C", sizes=[1, 2], spectrum="sym", terms=[[1]], max_order=3)
    add(carrier="C", sizes=[2, 1], spectrum="sym", terms=[[1]], max_order=3, fd=[0])
    add(carrier="C", sizes=[2, 1], spectrum="sym", terms=[[1]], max_order=3, fd=[0, 1])
    add(carrier="C", sizes=[3], spectrum="sym", terms=[[1]], max_order=3)
    add(carrier="C", sizes=[3], spectrum="sym", classes=[0, 1, 1], terms=[[1]], max_order=3)
    add(carrier="C", sizes=[3], spectrum="sym", terms=[[1]], max_order=3, fd={"0": [[0, 1, 0], [1, 0, 0], [0, 0, 0]]})
    add(carrier="C", sizes=[2, 2], spectrum="sym", classes=[0, 0, 1, 2], terms=[[1]], max_order=3, fd=[0, 1])
    add(carrier="C", sizes=[1, 1, 2], spectrum="sym", terms=[[1]], max_order=2, fd=[2])
    add(carrier="C", sizes=[1, 2], spectrum=RAT_SPECTRA[3], terms=[[1, 0], [0, 1], [1, 1]], max_order=3, fd={"1": [[0, 1], [1, 0]]})
    # the Hamiltonian as one sympy matrix in the perturbative symbols (the library's Taylor expansion), mixed monomials and higher powers
    add(carrier="C", sizes=[1, 2], spectrum=RAT_SPECTRA[3], terms=[[1, 0], [0, 1], [1, 1]], max_order=3, sympy_input="expression")
    add(carrier="C", sizes=[1, 1], spectrum=RAT_SPECTRA[2], terms=[[1, 0], [0, 1], [2, 1]], max_order=3, sympy_input="expression")
    add(carrier="C", sizes=[2, 1], spectrum="sym", terms=[[1], [3]], max_order=3, sympy_input="expression")
    # dict mask on a NON-first block with a non-transitive kept pattern (only element (0,2) of a 3x3 block is eliminated)
    add(carrier="C", sizes=[1, 3], spectrum=RAT_SPECTRA[4], terms=[[1]], max_order=3, fd={"1": [[0, 0, 1], [0, 0, 0], [1, 0, 0]]})
    add(carrier="C", sizes=[1, 1, 3], spectrum=RAT_SPECTRA[5], terms=[[1]], max_order=3, fd={"2": [[0, 0, 1], [0, 0, 0], [1, 0, 0]]})
    # degenerate level that is not adjacent / ascending in basis order
    add(carrier="A", sizes=[3], spectrum=["2", "0", "2"], terms=[[1]], max_order=3)
    add(carrier="A", sizes=[4], spectrum=["1", "0", "2", "0"], terms=[[1]], max_order=2)
    add(carrier="C", sizes=[4], spectrum=["1", "0", "5", "0"], terms=[[1]], max_order=2)
    # an unperturbed block that is exactly zero (represented internally by a 0-d eigenvalue array), as row and as column block
    add(carrier="C", sizes=[2, 2], spectrum=["1", "3", "0", "0"], terms=[[1]], max_order=2)
    add(carrier="C", sizes=[2, 1], spectrum=["0", "0", "2"], terms=[[1]], max_order=3)
    add(carrier="A", sizes=[2, 2], spectrum=["1", "2", "0", "0"], terms=[[1]], max_order=3)
    add(carrier="A", sizes=[2, 2], spectrum=["0", "0", "1", "2"], terms=[[1]], max_order=3)
    add(carrier="A", sizes=[2, 1], spectrum=["0", "0", "2"], terms=[[1]], max_order=3, fd=[1])
    add(carrier="B", sizes=[2, 2], spectrum=["0", "0", "1", "3"], terms=[[1]], max_order=3)
    # ... and listed in fully_diagonalize (its elimination mask is built without knowing the block size)
    add(carrier="C", sizes=[2, 1], spectrum=["0", "0", "2"], terms=[[1]], max_order=3, fd=[0])
    add(carrier="C", sizes=[2, 2], spectrum=["1", "3", "0", "0"], terms=[[1]], max_order=2, fd=[0, 1])
    add(carrier="A", sizes=[2, 1], spectrum=["0", "0", "2"], terms=[[1]], max_order=3, fd=[0])
    add(carrier="A", sizes=[2, 2], spectrum=["1", "2", "0", "0"], terms=[[1]], max_order=3, fd=[0, 1])
    # ... also when the zero block is 1x1 (its mask then has the block's shape but not sympy's type), first and last
    add(carrier="C", sizes=[1, 2], spectrum=["0", "1", "3"], terms=[[1]], max_order=3, fd=[0, 1])
    add(carrier="C", sizes=[2, 1], spectrum=["1", "3", "0"], terms=[[1]], max_order=3, fd=[0, 1])
    add(carrier="A", sizes=[1, 2], spectrum=["0", "1", "2"], terms=[[1]], max_order=3, fd=[0, 1])
    # boolean masks on an exactly zero block (1x1 and 2x2) of a symbolic Hamiltonian
    add(carrier="C", sizes=[1, 2], spectrum=["0", "1", "3"], terms=[[1]], max_order=3, fd={"0": [[0]], "1": [[0, 1], [1, 0]]})
    add(carrier="C", sizes=[2, 1], spectrum=["0", "0", "2"], terms=[[1]], max_order=2, fd={"0": [[0, 0], [0, 0]]})
    # blocks of fully_diagonalize designated by negative indices
    add(carrier="A", sizes=[1, 2], spectrum=["0", "1", "2"], terms=[[1]], max_order=3, fd=[-1])
    add(carrier="C", sizes=[2, 1, 2], spectrum=RAT_SPECTRA[5], terms=[[1]], max_order=2, fd=[-3, -1])
    add(carrier="A", sizes=[1, 2], spectrum=["0", "1", "2"], terms=[[1]], max_order=3, fd={"-1": [[0, 1], [1, 0]]})
    # integer-typed H_0 (np.diag([0, 2, ...]) of dtype int)
    add(carrier="A", sizes=[1, 1], spectrum=["0", "2"], terms=[[1]], max_order=3, int_h0=True)
    add(carrier="A", sizes=[2, 1], spectrum=["0", "4", "2"], terms=[[1]], max_order=3, int_h0=True, fd=[0])
    add(carrier="A", sizes=[3], spectrum=["0", "1", "2"], terms=[[1]], max_order=2, int_h0=True)
    # large common offset: gaps far above atol but tiny relative to the energies (absolute, not relative, degeneracy test)
    add(carrier="A", sizes=[2], spectrum=["1048576", "1048577"], terms=[[1]], max_order=3)
    add(carrier="A", sizes=[3], spectrum=["1048576", "1048577", "1048578"], terms=[[1]], max_order=2, fd={"0": [[0, 1, 1], [1, 0, 0], [1, 0, 0]]})
    if tier == "thorough":
        add(carrier="C", sizes=[2, 2], spectrum="sym", terms=[[1]], max_order=3, fd=[0, 1])
        add(carrier="C", sizes=[2, 2], spectrum="sym", terms=[[1]], max_order=3, fd={"0": [[0, 1], [1, 0]]})
        add(carrier="C", sizes=[3, 1], spectrum="sym", classes=[0, 1, 1, 2], terms=[[1]], max_order=3, fd={"0": [[0, 1, 1], [1, 0, 0], [1, 0, 0]]})
        add(carrier="C", sizes=[4], spectrum="sym", classes=[0, 1, 1, 2], terms=[[1]], max_order=2)
        add(carrier="C", sizes=[1, 3], spectrum=RAT_SPECTRA[4], terms=[[1], [2]], max_order=4, fd={"1": [[0, 1, 0], [1, 0, 1], [0, 1, 0]]})
        add(carrier="C", sizes=[2, 1, 1], spectrum=RAT_SPECTRA_ALT[4], terms=[[1], [2]], max_order=4, fd=[0])
        add(carrier="C", sizes=[2, 1], spectrum=RAT_SPECTRA[3], terms=[[1, 0, 0], [0, 1, 0], [0, 0, 1]], max_order=3, fd=[0])
    if not hermitian:
        add(carrier="C", sizes=[3], spectrum="sym", terms=[[1]], max_order=3, fd={"0": [[0, 1, 0], [0, 0, 1], [1, 0, 0]]})
        # asymmetric masks are legal in non-Hermitian mode
        add(carrier="A", sizes=[3], spectrum=["0", "1", "2"], terms=[[1]], max_order=3,
            fd={"0": [[0, 1, 0], [0, 0, 1], [1, 0, 0]]})
        add(carrier="A", sizes=[2, 1], spectrum=["0", "2", "1"], terms=[[1]], max_order=3,
            fd={"0": [[0, 1], [0, 0]]})
        for sizes in [[1, 1], [1, 2], [2, 1], [1, 1, 1]]:
            add(carrier="B", sizes=sizes, spectrum=CPLX_SPECTRA[sum(sizes)], terms=[[1]], max_order=3)
    if tier == "thorough":
        for N in (2, 3, 4, 5):
            for sizes in compositions_of(N, 3):
                if len(sizes) == 1:
                    continue  # a single block implies full diagonalisation, which custom solvers (carrier B) do not support
                if sizes in quick_layouts and N < 5:
                    # deepen the quick layouts
                    add(carrier="B", sizes=sizes, spectrum=RAT_SPECTRA[N], terms=[[1], [2]], max_order=4)
                    continue
                add(carrier="B", sizes=sizes, spectrum=RAT_SPECTRA[N], terms=[[1], [2]],
                    max_order=4 if N <= 4 else 3)
                if N <= 4:
                    add(carrier="B", sizes=sizes, spectrum="sym", terms=[[1]], max_order=3)
                    add(carrier="B", sizes=sizes, spectrum="symdeg", terms=[[1]], max_order=3)
        # N = 6 (exact rational spectrum), all layouts with 2-3 blocks; four and five blocks
        for sizes in compositions_of(6, 3):
            if len(sizes) > 1:
                add(carrier="B", sizes=sizes, spectrum=RAT_SPECTRA[6], terms=[[1], [2]], max_order=3)
        for sizes in ([1, 1, 1, 2], [1, 1, 2, 1], [1, 2, 1, 1], [2, 1, 1, 1], [1, 1, 1, 1, 1], [2, 1, 1, 2]):
            add(carrier="B", sizes=sizes, spectrum=RAT_SPECTRA[sum(sizes)], terms=[[1], [2]], max_order=4 if sum(sizes) <= 5 else 3)
        add(carrier="B", sizes=[3, 3], spectrum=RAT_SPECTRA[6], terms=[[1], [2]], max_order=4)
        add(carrier="B", sizes=[2, 2], spectrum=RAT_SPECTRA[4], terms=[[1, 0], [0, 1], [1, 1]], max_order=4)
        add(carrier="B", sizes=[1, 1, 2], spectrum=RAT_SPECTRA[4], terms=[[1, 0], [0, 1], [2, 0]], max_order=4)
        add(carrier="B", sizes=[1, 1, 1, 1], spectrum=RAT_SPECTRA[4], terms=[[1], [2]], max_order=4)
        add(carrier="B", sizes=[1, 1, 1, 1], spectrum="sym", terms=[[1]], max_order=2)
        for sizes in [[1, 1], [1, 2], [2, 1], [1, 1, 1]]:
            N = sum(sizes)
            if True:
                add(carrier="B", sizes=sizes, spectrum=RAT_SPECTRA[N], terms=[[1, 0], [0, 1], [1, 1]], max_order=4)
                add(carrier="B", sizes=sizes, spectrum=RAT_SPECTRA_ALT[N],
                    terms=[[1, 0, 0], [0, 1, 0], [0, 0, 1]], max_order=3)
        # partly degenerate symbolic spectra (kept degeneracies)
        add(carrier="B", sizes=[2, 2], spectrum="sym", classes=[0, 0, 1, 2], terms=[[1]], max_order=3)
        add(carrier="B", sizes=[2, 1, 1], spectrum="sym", classes=[0, 0, 1, 2], terms=[[1]], max_order=3)
        add(carrier="B", sizes=[3, 1], spectrum="sym", classes=[0, 0, 1, 2], terms=[[1]], max_order=3)
        # more masks on carrier A
        for mask in ([[0, 1, 1], [1, 0, 0], [1, 0, 0]], [[0, 0, 1], [0, 0, 1], [1, 1, 0]], [[0, 1, 1], [1, 0, 1], [1, 1, 0]],
                     [[0, 1, 0], [1, 0, 0], [0, 0, 0]]):
            add(carrier="A", sizes=[3], spectrum=["0", "1", "2"], terms=[[1]], max_order=4, fd={"0": mask})
            add(carrier="A", sizes=[3], spectrum=["0", "1", "2"], terms=[[1, 0], [0, 1]], max_order=3, fd={"0": mask})
        add(carrier="A", sizes=[3, 1], spectrum=["0", "2", "2", "4"], terms=[[1]], max_order=4,
            fd={"0": [[0, 1, 1], [1, 0, 0], [1, 0, 0]]})
        add(carrier="A", sizes=[1, 3], spectrum=["4", "0", "2", "2"], terms=[[1]], max_order=4,
            fd={"1": [[0, 1, 1], [1, 0, 0], [1, 0, 0]]})
        add(carrier="A", sizes=[2, 2], spectrum=["0", "2", "1", "4"], terms=[[1, 0], [0, 1]], max_order=3,
            fd={"0": [[0, 1], [1, 0]]})
        add(carrier="A", sizes=[2, 2], spectrum=["0", "2", "1", "4"], terms=[[1], [2]], max_order=4, fd=[0])
        add(carrier="A", sizes=[2, 1, 2], spectrum=["0", "0", "1", "2", "2"], terms=[[1]], max_order=3, fd=[0, 2])
        add(carrier="A", sizes=[4], spectrum=["0", "1", "1", "2"], terms=[[1]], max_order=3)
        add(carrier="A", sizes=[1, 1, 1], spectrum=["0", "1", "2"], terms=[[1], [2]], max_order=4)
        # fifth order on the smallest layouts (exact rational spectra)
        for sizes in [[1, 1], [1, 2], [2, 1], [1, 1, 1]]:
            add(carrier="B", sizes=sizes, spectrum=RAT_SPECTRA[sum(sizes)], terms=[[1]], max_order=5)
        add(carrier="A", sizes=[1, 1], spectrum=["0", "2"], terms=[[1]], max_order=5)
        for sizes in [[1, 1], [1, 2], [2, 1]]:
            add(carrier="B", sizes=sizes, spectrum=RAT_SPECTRA_ALT[sum(sizes)], terms=[[1]], max_order=6)
        for sizes in [[2, 2], [1, 3], [1, 1, 2], [2, 1, 1]]:
            add(carrier="B", sizes=sizes, spectrum=RAT_SPECTRA[4], terms=[[1]], max_order=5)
        for sizes in [[3, 3], [2, 4], [2, 2, 2]]:
            add(carrier="B", sizes=sizes, spectrum=RAT_SPECTRA[6], terms=[[1]], max_order=4)
        for sizes in ([4, 4], [3, 5], [2, 3, 3]):
            add(carrier="B", sizes=sizes, spectrum=RAT_SPECTRA[6] + ["33", "54"], terms=[[1]], max_order=3)
        add(carrier="A", sizes=[3], spectrum=["0", "1", "2"], terms=[[1]], max_order=5)
        # N = 7
        for sizes in ([3, 4], [2, 5], [1, 6], [2, 2, 3]):
            add(carrier="B", sizes=sizes, spectrum=RAT_SPECTRA[6] + ["33"], terms=[[1]], max_order=3)
        # every symmetric zero-diagonal elimination mask of a 3x3 block, symbolic spectrum through the library's sympy mode
        for bits in range(1, 8):
            m = [[0, bits & 1, (bits >> 1) & 1], [bits & 1, 0, (bits >> 2) & 1], [(bits >> 1) & 1, (bits >> 2) & 1, 0]]
            add(carrier="C", sizes=[3], spectrum="sym", terms=[[1]], max_order=3, fd={"0": m})
            add(carrier="A", sizes=[3], spectrum=["0", "1", "2"], terms=[[1], [2]], max_order=3, fd={"0": m})
        if not hermitian:
            # every (also asymmetric) zero-diagonal mask of a 3x3 block on the numeric diagonal solver
            for bits in range(1, 64):
                b = [(bits >> k) & 1 for k in range(6)]
                m = [[0, b[0], b[1]], [b[2], 0, b[3]], [b[4], b[5], 0]]
                add(carrier="A", sizes=[3], spectrum=["0", "1", "2"], terms=[[1]], max_order=3, fd={"0": m})
            for sizes in compositions_of(4, 3):
                if len(sizes) > 1:
                    add(carrier="B", sizes=sizes, spectrum=CPLX_SPECTRA[4], terms=[[1], [2]], max_order=3)
            for mask in ([[0, 1, 1], [0, 0, 0], [0, 1, 0]], [[0, 0, 0], [1, 0, 0], [1, 1, 0]]):
                add(carrier="A", sizes=[3], spectrum=["0", "1", "2"], terms=[[1]], max_order=3, fd={"0": mask})
                add(carrier="A", sizes=[3, 1], spectrum=["0", "2", "2", "4"], terms=[[1]], max_order=3,
                    fd={"0": [[0, 1, 0], [0, 0, 0], [0, 0, 0]]})
    return cfgs
