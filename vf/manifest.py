"""Regenerate /verif/MANIFEST.json from the registry:  python -m vf.manifest"""
from __future__ import annotations

import json
from pathlib import Path

from .registry import NOT_APPLICABLE, REGISTRY

VERIF = Path(__file__).resolve().parent.parent

BASELINE_OFF = (
    "cd /repo && env -u PYMABLOCK_VERIF /venv/bin/python -m pytest -ra -q -p no:cacheprovider --timeout=900 "
    "--continue-on-collection-errors"
)


def build():
    checks = []
    for pid, spec in sorted(REGISTRY.items()):
        checks.append(
            {
                "property_id": pid,
                "quick_cmd": f"bin/vcheck {pid} --tier quick",
                "thorough_cmd": f"bin/vcheck {pid} --tier thorough",
                "evidence_file": f"/verif/evidence/{pid}.json",
                "replay_cmd_template": "bin/vcheck replay {path}",
                "engine": spec.get("engine", "symc-z3"),
                "level_claimed": {
                    "category": spec.get("level", "other"),
                    "text": spec.get(
                        "level_text",
                        "Bounded SMT verification: the real library code is executed on symbolic values and z3 decides each "
                        "obligation for ALL values of the symbolic inputs within the enumerated configuration set; "
                        "`sat` models are replayed on the real code before being reported. Not a proof beyond the stated bounds.",
                    ),
                    "design_ref": spec.get("design_ref", f"DESIGN.md section 3 ({pid})"),
                },
                "level_note": "; ".join(spec["assumptions"]),
                "technique": spec["technique"][:600],
            }
        )
    return {
        "version": 1,
        "setup_cmd": "bash /verif/setup.sh",
        "hooks": {
            "guard": "PYMABLOCK_VERIF",
            "enable": "no source hooks are needed: stubs (numpy predicates on symbolic arrays, exact LU) are installed by the harness at import time; checks import pymablock from /repo's working tree",
            "baseline_off_cmd": BASELINE_OFF,
            "source_commits": [],
            "add_only": True,
        },
        "engines": [
            {
                "name": "symc-z3",
                "path": "/verif/vf",
                "serves_properties": sorted(REGISTRY),
                "kind_free_text": "symbolic execution of the real Python code on z3-backed scalars (numpy object arrays / sympy translation) + z3 nlsat decisions, cvc5 cross-checks, CrossHair for integer-indexed logic",
            }
        ],
        "checks": checks,
        "not_applicable": [{"property_id": k, "reason": v} for k, v in sorted(NOT_APPLICABLE.items()) if k not in REGISTRY],
        "notes": "Exit codes of every check: 0 all obligations discharged (KNOWN-FINDING lines allowed), 1 reproduced violation, 2 inconclusive (unknown/timeout), 3 harness error. See DESIGN.md.",
    }


def main():
    m = build()
    (VERIF / "MANIFEST.json").write_text(json.dumps(m, indent=1) + "\n")
    try:
        import jsonschema

        jsonschema.validate(m, json.loads(Path("/root/.vp/MANIFEST.schema.json").read_text()))
        print("MANIFEST.json valid;", len(m["checks"]), "checks,", len(m["not_applicable"]), "not applicable")
    except ImportError:
        print("MANIFEST.json written (jsonschema not available to validate)")


if __name__ == "__main__":
    main()
