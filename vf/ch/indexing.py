"""CrossHair contracts for BlockSeries.__getitem__ (property C19).

Every function is a contract `pre: small integer box / post: _ (returns True)`; CrossHair explores the real
pymablock.series.BlockSeries code symbolically over the box (integers become concrete at the numpy boundary,
so each path is one realised index expression) and either confirms all paths or returns a counterexample,
which vf/props/indexing.py replays by calling the function concretely.

Oracle: numpy indexing of the dense object table of element values, absent (zero) elements masked.
"""
import numpy as np

from pymablock.series import BlockSeries, zero

NMAX = 8  # orders tabulated by the oracle (boxes, incl. the widened thorough ones, stay below)


def _absent(index):
    return sum(index) % 3 == 2


def _value(index):
    v = 0
    for k in index:
        v = v * 10 + k
    return v + 1000


def _mk(shape, n_inf, log):
    def ev(*index):
        log.append(tuple(int(k) for k in index))
        return zero if _absent(index) else _value(index)

    return BlockSeries(eval=ev, shape=shape, n_infinite=n_inf)


def _dense(shape, n_inf):
    full = tuple(shape) + (NMAX,) * n_inf
    a = np.empty(full, dtype=object)
    for idx in np.ndindex(full):
        a[idx] = zero if _absent(idx) else _value(idx)
    return a


def _same(result, expected):
    """library result (scalar or masked array) vs numpy-indexed dense table."""
    if isinstance(expected, np.ndarray):
        if not isinstance(result, np.ma.MaskedArray):
            return False
        if result.shape != expected.shape:
            return False
        for r, m, e in zip(result.data.flat, np.ma.getmaskarray(result).flat, expected.flat):
            if e is zero:
                if not m:
                    return False
            elif m or r != e:
                return False
        return True
    if expected is zero:
        return result is zero
    return (not isinstance(result, np.ma.MaskedArray)) and result == expected


def _once(log):
    return len(log) == len(set(log))


def _expect(shape, n_inf, item):
    """(kind, value): what numpy says about this index expression; negative / infinite orders must raise IndexError."""
    n_fin = len(shape)
    for o in item[n_fin:]:
        if isinstance(o, slice):
            if o.stop is None or (o.start is not None and o.start < 0) or o.stop < 0:
                return "IndexError", None
        elif isinstance(o, list):
            if any(x < 0 for x in o):
                return "IndexError", None
        elif o < 0:
            return "IndexError", None
    try:
        return "value", _dense(shape, n_inf)[item]
    except IndexError:
        return "IndexError", None


def _check(shape, n_inf, item):
    log = []
    s = _mk(shape, n_inf, log)
    kind, exp = _expect(shape, n_inf, item)
    try:
        r = s[item]
    except IndexError:
        return kind == "IndexError"
    if kind == "IndexError":
        return False
    if not _same(r, exp):
        return False
    n1 = len(log)
    r2 = s[item]  # cached: nothing is evaluated again
    return _same(r2, exp) and len(log) == n1 and _once(log)


# ---------------------------------------------------------------------------------------------- contracts


def int_index(i: int, j: int, n: int) -> bool:
    """
    pre: -3 <= i <= 2 and -1 <= j <= 1 and -2 <= n <= 3
    post: _
    """
    return _check((2, 2), 1, (i, j, n))


def order_slice(start: int, stop: int, step: int, i: int) -> bool:
    """
    pre: -1 <= start <= 3 and -1 <= stop <= 4 and 1 <= step <= 2 and 0 <= i <= 1
    post: _
    """
    return _check((2, 2), 1, (i, 1, slice(start, stop, step)))


def order_slice_open_start(stop: int, step: int, j: int) -> bool:
    """
    pre: -1 <= stop <= 5 and 1 <= step <= 2 and -2 <= j <= 1
    post: _
    """
    return _check((2, 2), 1, (0, j, slice(None, stop, step)))


def order_slice_no_stop(start: int, i: int) -> bool:
    """
    pre: -1 <= start <= 3 and 0 <= i <= 1
    post: _
    """
    return _check((2, 2), 1, (i, 0, slice(start, None)))


def block_slice(a0: int, a1: int, j: int, n: int) -> bool:
    """
    pre: -2 <= a0 <= 2 and 0 <= a1 <= 3 and 1 <= j <= 1 and 1 <= n <= 2
    post: _
    """
    return _check((2, 2), 1, (slice(a0, a1), j, n))


def block_and_order_slices(a0: int, b1: int, stop: int) -> bool:
    """
    pre: -2 <= a0 <= 2 and -1 <= b1 <= 2 and 0 <= stop <= 3
    post: _
    """
    return _check((2, 2), 1, (slice(a0, None), slice(None, b1), slice(0, stop)))


def list_index(i1: int, i2: int, j: int, n: int) -> bool:
    """
    pre: -2 <= i1 <= 1 and -2 <= i2 <= 1 and -2 <= j <= 1 and 0 <= n <= 3
    post: _
    """
    return _check((2, 2), 1, ([i1, i2], j, n))


def order_list(n1: int, n2: int, i: int) -> bool:
    """
    pre: -1 <= n1 <= 3 and -1 <= n2 <= 3 and 0 <= i <= 1
    post: _
    """
    return _check((2, 2), 1, (i, 1, [n1, n2]))


def two_infinite(i: int, n1: int, n2: int) -> bool:
    """
    pre: -3 <= i <= 2 and -2 <= n1 <= 3 and -2 <= n2 <= 3
    post: _
    """
    return _check((2,), 2, (i, n1, n2))


def two_infinite_slices(s1: int, n2: int, step: int) -> bool:
    """
    pre: -1 <= s1 <= 4 and -1 <= n2 <= 3 and 1 <= step <= 2
    post: _
    """
    return _check((2,), 2, (slice(None), slice(0, s1, step), n2))


def scalar_series(n: int) -> bool:
    """
    pre: -3 <= n <= 5
    post: _
    """
    return _check((), 1, (n,))


def scalar_series_slice(start: int, stop: int) -> bool:
    """
    pre: -2 <= start <= 4 and -2 <= stop <= 5
    post: _
    """
    return _check((), 1, (slice(start, stop),))


def wrong_number_of_indices(i: int, n: int, extra: int) -> bool:
    """
    pre: 0 <= i <= 1 and 0 <= n <= 2 and 0 <= extra <= 1
    post: _
    """
    log = []
    s = _mk((2, 2), 1, log)
    try:
        s[(i, 0, n, extra)]
    except IndexError:
        return True
    return False


def finite_view_int(i: int, j: int, n: int) -> bool:
    """
    pre: -2 <= i <= 1 and -2 <= j <= 1 and 0 <= n <= 3
    post: _
    """
    log = []
    s = _mk((2, 2), 1, log)
    view = s[i, j]
    if not isinstance(view, BlockSeries) or view.shape != () or view.n_infinite != 1:
        return False
    exp = _dense((2, 2), 1)[i, j, n]
    r = view[n]
    return _same(r, exp) and _same(s[i, j, n], exp) and _once(log)


def finite_view_slice(a0: int, a1: int, j: int, n: int) -> bool:
    """
    pre: -2 <= a0 <= 2 and -1 <= a1 <= 2 and 0 <= j <= 1 and 1 <= n <= 2
    post: _
    """
    log = []
    s = _mk((2, 2), 1, log)
    sub = np.empty((2, 2))[slice(a0, a1), :].shape
    view = s[a0:a1, :]
    if not isinstance(view, BlockSeries) or tuple(view.shape) != tuple(sub):
        return False
    exp = _dense((2, 2), 1)[a0:a1, :, n]
    for k in range(sub[0]):
        if not _same(view[k, j, n], exp[k, j]):
            return False
    return _once(log)


def _c(x, lo, hi):
    """Realise a symbolic integer of a small box (one path per value): index expressions that nest symbolic integers in lists
    next to concrete ones are not modelled by numpy's C index parser under symbolic execution."""
    for v in range(lo, hi + 1):
        if x == v:
            return v
    raise AssertionError("outside the precondition box")


def three_finite_dims_int(i: int, j: int) -> bool:
    """
    pre: -3 <= i <= 2 and -4 <= j <= 3
    post: _
    """
    return _check((2, 3, 2), 1, (i, j, 1, 1))


def three_finite_dims_int_last(k: int, n: int) -> bool:
    """
    pre: -3 <= k <= 2 and -1 <= n <= 2
    post: _
    """
    return _check((2, 3, 2), 1, (1, 2, k, n))


def three_finite_dims_mixed(form: int, a: int, b: int, n: int) -> bool:
    """
    pre: 0 <= form <= 6 and -2 <= a <= 1 and -1 <= b <= 2 and 0 <= n <= 2
    post: _
    """
    # lists, slices and integers mixed over three finite dimensions (numpy moves separated advanced indices to the front)
    form, a, b, n = _c(form, 0, 6), _c(a, -2, 1), _c(b, -1, 2), _c(n, 0, 2)
    items = [
        (slice(None), [a, b], slice(None), n),
        ([a], slice(None), [b % 2], n),
        (a, slice(None), [0, 1], n),
        (slice(None), b, slice(None), slice(None, n + 1)),
        ([0, 1], [a, b], slice(None), n),
        (slice(None), [b], slice(None), [n, 0]),
        (slice(a, None), [b, 0], b % 2, slice(0, n + 1, 2)),
    ]
    return _check((2, 3, 2), 1, items[form])


def three_finite_dims_view(form: int, a: int, b: int, n: int) -> bool:
    """
    pre: 0 <= form <= 5 and -2 <= a <= 1 and -2 <= b <= 1 and 0 <= n <= 2
    post: _
    """
    # finite-dimension-only index expressions with a list: the view has the numpy shape AND the numpy element layout
    form, a, b, n = _c(form, 0, 5), _c(a, -2, 1), _c(b, -2, 1), _c(n, 0, 2)
    items = [
        (slice(None), [a, b], slice(None)),
        ([a, b], slice(None), slice(None)),
        (slice(None), slice(None), [a, b]),
        ([a], slice(None), [b]),
        (a, [b, 0], slice(None)),
        (slice(None), [a, b, 0], slice(1, None)),
    ]
    item = items[form]
    log = []
    shape = (2, 3, 2)
    s = _mk(shape, 1, log)
    exp = _dense(shape, 1)[item]
    view = s[item]
    if not isinstance(view, BlockSeries) or tuple(view.shape) != tuple(exp.shape[:-1]) or view.n_infinite != 1:
        return False
    for idx in np.ndindex(*exp.shape[:-1]):
        if not _same(view[idx + (n,)], exp[idx + (n,)]):
            return False
    return _once(log)


def view_requests(form: int, a: int, n: int, m: int) -> bool:
    """
    pre: 0 <= form <= 5 and -2 <= a <= 1 and 0 <= n <= 2 and 0 <= m <= 2
    post: _
    """
    # requests ON a finite-dimension-only view (slices / lists / negative indices over the view; two infinite dimensions; view of a view)
    form, a, n, m = _c(form, 0, 5), _c(a, -2, 1), _c(n, 0, 2), _c(m, 0, 2)
    log = []
    if form <= 2:
        shape, ninf = (2, 3), 1
        s = _mk(shape, ninf, log)
        d = _dense(shape, ninf)
        if form == 0:  # slice request over a sliced view
            view, exp = s[:, 1:], d[:, 1:][a, :, : n + 1]
            got = view[a, :, : n + 1]
        elif form == 1:  # list request over a list view
            view, exp = s[[1, 0], :], d[[1, 0], :][[a, 0], [m, 1], n]
            got = view[[a, 0], [m, 1], n]
        else:  # view of a view
            view, exp = s[:, ::2][1:, :], d[:, ::2][1:, :][0, a, n]
            got = view[0, a, n]
    else:
        shape, ninf = (2, 2), 2
        s = _mk(shape, ninf, log)
        d = _dense(shape, ninf)
        if form == 3:
            view, exp = s[a, :], d[a, :][1, n, m]
            got = view[1, n, m]
        elif form == 4:
            view, exp = s[:, [a]], d[:, [a]][:, 0, : n + 1, m]
            got = view[:, 0, : n + 1, m]
        else:
            view, exp = s[a, 1], d[a, 1][n, : m + 1]
            got = view[n, : m + 1]
    if not isinstance(view, BlockSeries):
        return False
    return _same(got, exp) and _once(log)


def view_evaluates_only_what_is_requested(form: int, n: int) -> bool:
    """
    pre: 0 <= form <= 3 and 0 <= n <= 3
    post: _
    """
    # S[1, n] is defined through element (0, n) of a slice / list view of S itself.  On the dense table this is not self-referential,
    # so it must not be reported as an infinite recursion, and reading one element of a view must not evaluate its siblings.
    form, n = _c(form, 0, 3), _c(n, 0, 3)
    log = []

    def ev(i, k):
        log.append((int(i), int(k)))
        if i == 1:
            view = [s[:], s[0:2], s[[0, 1]], s[[1, 0]][::-1]][form]
            return 10 * view[0, k]
        return k + 1

    s = BlockSeries(eval=ev, shape=(2,), n_infinite=1)
    try:
        r = s[1, n]
    except RuntimeError:
        return False
    return r == 10 * (n + 1) and sorted(log) == [(0, n), (1, n)]


def view_index_is_fixed_at_creation(a: int, b: int, n: int) -> bool:
    """
    pre: 0 <= a <= 2 and 0 <= b <= 2 and 0 <= n <= 2
    post: _
    """
    # numpy evaluates an index expression when it is applied: changing the caller's list afterwards does not change the view
    a, b, n = _c(a, 0, 2), _c(b, 0, 2), _c(n, 0, 2)
    log = []
    s = _mk((3, 2), 1, log)
    rows = [a, b]
    full = _dense((3, 2), 1)[rows, :]
    view = s[rows, :]
    first = view[0, 1, n]
    rows[0] = rows[1] = (a + 1) % 3
    got = view[:, :, n + 1]  # another order: nothing about it is cached yet
    return _same(first, full[0, 1, n]) and _same(got, full[:, :, n + 1]) and _once(log)


def eval_receives_python_integers(form: int, i: int, n: int) -> bool:
    """
    pre: 0 <= form <= 3 and 0 <= i <= 1 and 0 <= n <= 3
    post: _
    """
    # the documented signature of eval is eval(*index) with integer indices: fixed-width numpy integers overflow / refuse negative powers
    form, i, n = _c(form, 0, 3), _c(i, 0, 1), _c(n, 0, 3)
    seen = []

    def ev(*index):
        seen.extend(type(k) is int for k in index)
        return 2 ** -index[-1]  # raises for numpy integers

    s = BlockSeries(eval=ev, shape=(2,), n_infinite=1)
    item = [(i, n), (slice(None), n), ([i, 0], n), (i, slice(0, n + 1))][form]
    try:
        s[item]
    except ValueError:
        return False
    return all(seen) and len(seen) > 0


def out_of_range_finite_view(i: int, j: int) -> bool:
    """
    pre: -4 <= i <= 3 and -4 <= j <= 3
    post: _
    """
    # a finite-dimension-only index is resolved when it is applied, like numpy: out of range => IndexError at once
    i, j = _c(i, -4, 3), _c(j, -4, 3)
    log = []
    s = _mk((2, 2), 1, log)
    try:
        np.empty((2, 2))[i, j]
        expect_error = False
    except IndexError:
        expect_error = True
    try:
        view = s[i, j]
    except IndexError:
        return expect_error
    return (not expect_error) and isinstance(view, BlockSeries) and log == []


def numpy_integer_indices(form: int, a: int, b: int) -> bool:
    """
    pre: 0 <= form <= 4 and -2 <= a <= 2 and -2 <= b <= 3
    post: _
    """
    # numpy integers (what the library itself hands to every eval) are integers for every rule: negative orders raise IndexError
    form, a, b = _c(form, 0, 4), _c(a, -2, 2), _c(b, -2, 3)
    A, B = np.int64(a), np.int64(b)
    items = [
        (0, 1, slice(A, b)),
        (0, 1, slice(a, B)),
        (1, 0, slice(A, B, np.int64(1))),
        (np.int64(a % 2), np.int64(-1), B),
        ([np.int64(a % 2)], 0, [B, np.int64(0)]),
    ]
    return _check((2, 2), 1, items[form])


def empty_list_request(where: int, i: int, n: int) -> bool:
    """
    pre: 0 <= where <= 2 and -2 <= i <= 1 and 0 <= n <= 2
    post: _
    """
    # an empty list is a legal numpy index: the result is an empty array and nothing is evaluated
    where, i, n = _c(where, 0, 2), _c(i, -2, 1), _c(n, 0, 2)
    items = [(i, 0, []), ([], i, n), ([i], [], n)]
    item = items[where]
    log = []
    s = _mk((2, 2), 1, log)
    exp = _dense((2, 2), 1)[item]
    r = s[item]
    return isinstance(r, np.ma.MaskedArray) and r.shape == exp.shape and r.size == 0 and log == []


def dependent_elements_in_one_request(n: int, use_list: int) -> bool:
    """
    pre: 0 <= n <= 3 and 0 <= use_list <= 1
    post: _
    """
    # element (0, n) is defined through (1, n), which comes LATER in the same multi-element request
    log = []

    def ev(i, k):
        log.append((int(i), int(k)))
        if i == 0:
            return s[1, k] + 100
        return 1000 + 10 * k

    s = BlockSeries(eval=ev, shape=(2,), n_infinite=1)
    r = s[[0, 1], n] if use_list else s[:, n]
    vals = list(r.data)
    return vals == [1100 + 10 * n, 1000 + 10 * n] and len(log) == len(set(log)) == 2


def downward_recurrence_list_request(top: int) -> bool:
    """
    pre: 1 <= top <= 4
    post: _
    """
    log = []

    def ev(k):
        log.append(int(k))
        return 1 if k >= top else b[k + 1] + 1

    b = BlockSeries(eval=ev, shape=(), n_infinite=1)
    r = b[list(range(top + 1))]
    return list(r.data) == [top - k + 1 for k in range(top + 1)] and len(log) == len(set(log))
