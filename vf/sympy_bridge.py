"""Bridge between sympy expressions (pymablock's symbolic mode) and SymC / z3 terms.

to_symc : sympy expression tree -> SymC, node by node (Add, Mul, integer Pow, Rational, I, conjugate, real Symbols).
          Negative powers become SymC divisions, i.e. registered denominator atoms.
to_sympy: SymC (polynomial z3 terms over atoms) -> sympy expression with real symbols of the same names.
validate: both directions are spot-checked at a seeded random rational point (must agree exactly).
"""
from __future__ import annotations

import random
from fractions import Fraction

import sympy
import z3

from . import symc
from .symc import SymC

_SYM_CACHE = {}


def sym(name):
    s = _SYM_CACHE.get(name)
    if s is None:
        s = _SYM_CACHE[name] = sympy.Symbol(name, real=True)
    return s


def _z3_to_sympy(t, memo):
    k = t.get_id()
    if k in memo:
        return memo[k]
    if z3.is_rational_value(t):
        r = sympy.Rational(t.numerator_as_long(), t.denominator_as_long())
    elif z3.is_const(t) and t.decl().kind() == z3.Z3_OP_UNINTERPRETED:
        r = sym(t.decl().name())
    else:
        kind = t.decl().kind()
        args = [_z3_to_sympy(a, memo) for a in t.children()]
        if kind == z3.Z3_OP_ADD:
            r = sympy.Add(*args)
        elif kind == z3.Z3_OP_MUL:
            r = sympy.Mul(*args)
        elif kind == z3.Z3_OP_SUB:
            r = args[0] - sympy.Add(*args[1:])
        elif kind == z3.Z3_OP_UMINUS:
            r = -args[0]
        elif kind == z3.Z3_OP_POWER:
            r = args[0] ** args[1]
        elif kind == z3.Z3_OP_TO_REAL:
            r = args[0]
        else:
            raise NotImplementedError(f"z3 node {t.decl().name()} in {t}")
    memo[k] = r
    return r


def to_sympy(x, memo=None):
    """SymC -> sympy expression (real symbols named like the z3 variables)."""
    x = symc.lift(x)
    memo = {} if memo is None else memo
    e = _z3_to_sympy(x.re, memo) + sympy.I * _z3_to_sympy(x.im, memo)
    for k, p in x.den.items():
        e = e / _z3_to_sympy(symc.CTX.atoms[k], memo) ** p
    return e


def matrix_to_sympy(M):
    import numpy as np

    M = np.asarray(M, dtype=object)
    memo = {}
    return sympy.Matrix(M.shape[0], M.shape[1], lambda i, j: to_sympy(M[i, j], memo))


class Translator:
    """sympy -> SymC with memoisation on expression identity."""

    def __init__(self):
        self.memo = {}
        self.nodes = 0

    def __call__(self, e):
        e = sympy.sympify(e)
        try:
            return self.memo[e]
        except KeyError:
            pass
        r = self._tr(e)
        self.memo[e] = r
        self.nodes += 1
        return r

    def _tr(self, e):
        if e.is_Symbol:
            if e.is_real is not True:
                raise NotImplementedError(f"non-real symbol {e} (the carrier only creates real symbols)")
            return SymC(symc.real(e.name))
        if e.is_Rational:
            return SymC(symc._rv(Fraction(int(e.p), int(e.q))))
        if e is sympy.I:
            return SymC(symc.R0, symc.R1)
        if e.is_Add:
            acc = self(e.args[0])
            for a in e.args[1:]:
                acc = acc + self(a)
            return acc
        if e.is_Mul:
            acc = self(e.args[0])
            for a in e.args[1:]:
                acc = acc * self(a)
            return acc
        if e.is_Pow:
            b, ex = e.args
            if not ex.is_Integer:
                raise NotImplementedError(f"non-integer power {e}")
            return self(b) ** int(ex)
        if isinstance(e, sympy.conjugate):
            return self(e.args[0]).conjugate()
        if isinstance(e, (sympy.re, sympy.im)):
            v = self(e.args[0])
            return v.real if isinstance(e, sympy.re) else v.imag
        if isinstance(e, sympy.Float):
            raise NotImplementedError("floats do not occur on the symbolic carrier")
        if e in (sympy.zoo, sympy.nan, sympy.oo, -sympy.oo):
            raise symc.SymbolicDivisionByZero(f"{e} in library output")
        raise NotImplementedError(f"{type(e).__name__}: {e}")


def matrix_to_symc(M, tr=None):
    import numpy as np

    tr = tr or Translator()
    out = np.empty(M.shape, dtype=object)
    for i in range(M.shape[0]):
        for j in range(M.shape[1]):
            out[i, j] = tr(M[i, j])
    return out


def random_point(seed, names=None):
    rnd = random.Random(seed)
    names = list(symc.CTX.vars) if names is None else names
    pt = {}
    for n in sorted(names):
        v = Fraction(rnd.randint(-9, 9), rnd.randint(1, 5))
        if v == 0:
            v = Fraction(1, 3)
        pt[n] = v
    return pt


def validate_pair(expr, x, point):
    """Exact agreement of a sympy expression and its SymC translation at a rational point."""
    from . import bd

    subs = {sym(n): sympy.Rational(v.numerator, v.denominator) for n, v in point.items()}
    try:
        ev = sympy.expand(expr.subs(subs))
        re_s, im_s = ev.as_real_imag()
        re_z, im_z = bd.evaluate(x, point)
    except ZeroDivisionError:
        return None
    return sympy.Rational(re_z.numerator, re_z.denominator) == re_s and sympy.Rational(im_z.numerator, im_z.denominator) == im_s
